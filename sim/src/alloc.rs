//! SimAlloc — the allocator seam.
//!
//! Installed as `#[global_allocator]` by the `allocsim` and `placesim`
//! binaries (the harness binary owns the allocator; nothing in /repo changes).
//!
//! * placement mode (C31): every allocation whose `Layout` alignment is < 8 is
//!   placed at an address congruent to `k` (mod 8), rounded down to the layout's
//!   own alignment — legal per the `GlobalAlloc` contract, which promises only
//!   the requested alignment.
//! * machine mode (C30): the calling thread runs on a simulated machine with
//!   `limit` bytes and no overcommit; a request that does not fit is refused
//!   (null), recorded, and written to a pre-opened fd with a raw `write`
//!   (no allocation, no PRNG) so the record survives the abort that follows.
//!
//! No decision here depends on addresses, clocks or other threads: refusals are
//! a function of the request sizes of the calling thread only.

use std::alloc::{GlobalAlloc, Layout, System};
use std::cell::Cell;
use std::sync::atomic::{AtomicI32, Ordering};

pub struct SimAlloc;

#[derive(Clone, Copy, Debug, Default)]
pub struct Acct {
    pub active: bool,
    pub trial: u64,
    pub limit: usize,
    pub live: usize,
    pub peak: usize,
    pub allocs: u64,
    pub refusals: u32,
    pub class_a: u32,
    pub last_refused: usize,
    pub last_refused_live: usize,
    pub last_refused_peak: usize,
    pub last_class_a: bool,
    pub biggest_granted: usize,
}

thread_local! {
    static PLACE_K: Cell<u8> = const { Cell::new(0) };
    static ACCT: Cell<Acct> = const { Cell::new(Acct {
        active: false, trial: 0, limit: 0, live: 0, peak: 0, allocs: 0, refusals: 0, class_a: 0,
        last_refused: 0, last_refused_live: 0, last_refused_peak: 0, last_class_a: false, biggest_granted: 0,
    }) };
}

/// Whether a class A refusal also reports its call site (symbolising a backtrace costs
/// about a second, so it is on only when a single case is re-run for a report).
pub static SITE_ENABLED: std::sync::atomic::AtomicBool = std::sync::atomic::AtomicBool::new(false);

/// fd that receives one line per refusal (`-1` = none).
pub static REFUSE_FD: AtomicI32 = AtomicI32::new(-1);

pub fn set_placement(k: u8) {
    let _ = PLACE_K.try_with(|c| c.set(k & 7));
}

pub fn placement() -> u8 {
    PLACE_K.try_with(Cell::get).unwrap_or(0)
}

/// Start accounting for the calling thread: a fresh machine with `limit` bytes.
pub fn begin_trial(trial: u64, limit: usize) {
    let _ = ACCT.try_with(|c| {
        c.set(Acct {
            active: true,
            trial,
            limit,
            ..Acct::default()
        })
    });
}

/// Stop accounting and return what happened.
pub fn end_trial() -> Acct {
    ACCT.try_with(|c| {
        let a = c.get();
        let mut off = a;
        off.active = false;
        c.set(off);
        a
    })
    .unwrap_or_default()
}

pub fn snapshot() -> Acct {
    ACCT.try_with(Cell::get).unwrap_or_default()
}

/// "Impossible request": a one-shot request sized by an operand, not the next
/// doubling of something that grew gradually.
#[inline]
fn is_class_a(size: usize, limit: usize, peak: usize) -> bool {
    size >= limit / 2 && size >= peak.saturating_mul(8)
}

fn write_num(buf: &mut [u8], mut at: usize, mut v: u64) -> usize {
    let mut tmp = [0u8; 20];
    let mut n = 0;
    if v == 0 {
        tmp[0] = b'0';
        n = 1;
    }
    while v > 0 {
        tmp[n] = b'0' + (v % 10) as u8;
        v /= 10;
        n += 1;
    }
    while n > 0 {
        n -= 1;
        buf[at] = tmp[n];
        at += 1;
    }
    at
}

fn log_refusal(a: &Acct, size: usize, class_a: bool) {
    let fd = REFUSE_FD.load(Ordering::Relaxed);
    if fd < 0 {
        return;
    }
    // "REFUSE <trial> <size> <live> <peak> <A|B>\n"
    let mut buf = [0u8; 128];
    let mut at = 0;
    for &b in b"REFUSE " {
        buf[at] = b;
        at += 1;
    }
    at = write_num(&mut buf, at, a.trial);
    buf[at] = b' ';
    at += 1;
    at = write_num(&mut buf, at, size as u64);
    buf[at] = b' ';
    at += 1;
    at = write_num(&mut buf, at, a.live as u64);
    buf[at] = b' ';
    at += 1;
    at = write_num(&mut buf, at, a.peak as u64);
    buf[at] = b' ';
    at += 1;
    buf[at] = if class_a { b'A' } else { b'B' };
    at += 1;
    buf[at] = b'\n';
    at += 1;
    // SAFETY: writing a stack buffer to an fd; no allocation.
    unsafe {
        libc::write(fd, buf.as_ptr().cast(), at);
    }
}

/// Where did the impossible request come from? Capture a backtrace (with this
/// thread's accounting switched off, so the capture's own allocations are not
/// simulated) and write the innermost `succinctly::` frames as one `SITE` line.
fn log_site(c: &Cell<Acct>, a: &Acct) {
    let fd = REFUSE_FD.load(Ordering::Relaxed);
    if fd < 0 {
        return;
    }
    let mut off = *a;
    off.active = false;
    c.set(off);
    let text = std::backtrace::Backtrace::force_capture().to_string();
    let mut frames: Vec<&str> = Vec::new();
    for line in text.lines() {
        let l = line.trim();
        // "12: succinctly::jq::eval::arith_mul"
        if let Some(pos) = l.find(": ") {
            let name = &l[pos + 2..];
            if name.starts_with("succinctly::") || name.starts_with("<succinctly::") {
                frames.push(name);
                if frames.len() == 4 {
                    break;
                }
            }
        }
    }
    let mut out = String::from("SITE ");
    out.push_str(&a.trial.to_string());
    out.push(' ');
    out.push_str(&frames.join(" <- ").replace('\n', " "));
    out.push('\n');
    // SAFETY: write(2) of an owned buffer.
    unsafe {
        libc::write(fd, out.as_ptr().cast(), out.len());
    }
    drop(out);
    drop(frames);
    drop(text);
    c.set(*a);
}

/// Returns false if the simulated machine refuses the request.
#[inline]
fn account_alloc(size: usize) -> bool {
    ACCT.try_with(|c| {
        let mut a = c.get();
        if !a.active {
            return true;
        }
        if a.live.saturating_add(size) > a.limit {
            let class_a = is_class_a(size, a.limit, a.peak);
            a.refusals += 1;
            if class_a {
                a.class_a += 1;
            }
            a.last_refused = size;
            a.last_refused_live = a.live;
            a.last_refused_peak = a.peak;
            a.last_class_a = class_a;
            c.set(a);
            log_refusal(&a, size, class_a);
            if class_a && SITE_ENABLED.load(Ordering::Relaxed) {
                log_site(c, &a);
            }
            return false;
        }
        a.live += size;
        a.allocs += 1;
        if a.live > a.peak {
            a.peak = a.live;
        }
        if size > a.biggest_granted {
            a.biggest_granted = size;
        }
        c.set(a);
        true
    })
    .unwrap_or(true)
}

#[inline]
fn account_free(size: usize) {
    let _ = ACCT.try_with(|c| {
        let mut a = c.get();
        if a.active {
            a.live = a.live.saturating_sub(size);
            c.set(a);
        }
    });
}

const HDR: usize = 8;

#[inline]
unsafe fn raw_alloc(layout: Layout, zeroed: bool) -> *mut u8 {
    if layout.align() >= 8 {
        return if zeroed {
            System.alloc_zeroed(layout)
        } else {
            System.alloc(layout)
        };
    }
    // Placed path: [base .. base+8) header space, user pointer at base + 8 + k.
    let Some(total) = layout.size().checked_add(HDR + 8) else {
        return core::ptr::null_mut();
    };
    let Ok(big) = Layout::from_size_align(total, 8) else {
        return core::ptr::null_mut();
    };
    let base = if zeroed {
        System.alloc_zeroed(big)
    } else {
        System.alloc(big)
    };
    if base.is_null() {
        return base;
    }
    let k = placement() as usize & !(layout.align() - 1);
    base.add(HDR + k)
}

#[inline]
unsafe fn raw_dealloc(ptr: *mut u8, layout: Layout) {
    if layout.align() >= 8 {
        System.dealloc(ptr, layout);
        return;
    }
    let base = ((ptr as usize & !7) - HDR) as *mut u8;
    let big = Layout::from_size_align_unchecked(layout.size() + HDR + 8, 8);
    System.dealloc(base, big);
}

unsafe impl GlobalAlloc for SimAlloc {
    unsafe fn alloc(&self, layout: Layout) -> *mut u8 {
        if !account_alloc(layout.size()) {
            return core::ptr::null_mut();
        }
        let p = raw_alloc(layout, false);
        if p.is_null() {
            account_free(layout.size());
        }
        p
    }

    unsafe fn alloc_zeroed(&self, layout: Layout) -> *mut u8 {
        if !account_alloc(layout.size()) {
            return core::ptr::null_mut();
        }
        let p = raw_alloc(layout, true);
        if p.is_null() {
            account_free(layout.size());
        }
        p
    }

    unsafe fn dealloc(&self, ptr: *mut u8, layout: Layout) {
        account_free(layout.size());
        raw_dealloc(ptr, layout);
    }

    unsafe fn realloc(&self, ptr: *mut u8, layout: Layout, new_size: usize) -> *mut u8 {
        let old = layout.size();
        if new_size > old {
            // A machine without overcommit must find room for the growth.
            if !account_alloc(new_size - old) {
                return core::ptr::null_mut();
            }
        }
        let p = if layout.align() >= 8 {
            System.realloc(ptr, layout, new_size)
        } else {
            let new_layout = Layout::from_size_align_unchecked(new_size, layout.align());
            let np = raw_alloc(new_layout, false);
            if !np.is_null() {
                core::ptr::copy_nonoverlapping(ptr, np, old.min(new_size));
                raw_dealloc(ptr, layout);
            }
            np
        };
        if p.is_null() {
            if new_size > old {
                account_free(new_size - old);
            }
        } else if new_size < old {
            account_free(old - new_size);
        }
        p
    }
}
