//! C03 — Elias-Fano sequences answer exactly under any access history.
//!
//! REAL: `EliasFano::{build,len,universe,get,predecessor,cursor,cursor_from,into_iter}`
//! and `EliasFanoCursor::{current,index,is_exhausted,advance_one,advance_by,seek,clone}`.
//! Model: the plain `Vec<u32>` plus a saturating position.
//!
//! Each cursor owns its state (`&mut self`), so the order in which different
//! cursors step cannot change an answer; what is explored is each cursor's
//! own operation history, with `clone` and `restart` as faults.

use serde::{Deserialize, Serialize};
use serde_json::{json, Value};

use succinctly::bits::{EliasFano, EliasFanoCursor};

use crate::core::{Failure, Fnv, Obs, Rng, Scenario, Tier};

pub const SLOTS: usize = 3;

#[derive(Clone, Debug, Serialize, Deserialize, PartialEq)]
pub enum Ev {
    AdvOne { s: u8 },
    AdvBy { s: u8, k: u64 },
    Seek { s: u8, i: u64 },
    /// Replace slot by `cursor_from(i)`.
    From { s: u8, i: u64 },
    /// Replace slot by `cursor()`.
    New { s: u8 },
    /// Fault: `dst = src.clone()` mid-history.
    Clone { src: u8, dst: u8 },
    /// Fault: rebuild the sequence; re-create every cursor with `cursor_from(index())`.
    Restart,
    Get { i: u64 },
    Pred { v: u32 },
    /// Iterate the first `take` elements (u64::MAX = all) and compare.
    Iter { take: u64 },
    Meta,
}

#[derive(Clone, Debug, Serialize, Deserialize)]
pub struct Case {
    pub values: Vec<u32>,
    pub events: Vec<Ev>,
}

pub const REACH: &[&str] = &[
    "adv_one",            // 0
    "adv_by_0",           // 1
    "adv_by_1",           // 2
    "adv_by_2_64",        // 3
    "adv_by_gt64",        // 4
    "adv_by_overflowing", // 5  idx + k overflows usize
    "adv_reaches_end",    // 6  op lands exactly on/over the end
    "op_after_exhaustion",// 7
    "seek_backward",      // 8
    "seek_forward",       // 9
    "seek_past_end",      // 10
    "cursor_from",        // 11
    "cursor_from_past_end", // 12
    "get_some",           // 13
    "get_none",           // 14
    "pred_some",          // 15
    "pred_none",          // 16
    "pred_on_duplicate",  // 17
    "iter_full",          // 18
    "meta",               // 19
    "seq_empty",          // 20
    "seq_len_ge_256",     // 21
    "seq_len_ge_512",     // 22
    "seq_has_duplicates", // 23
    "seq_max_is_u32_max", // 24
    "seq_dense_low_width0", // 25 universe <= n
    "seq_long_zero_gap",  // 26 some gap between consecutive values >= 512 * (universe/n)
    "adv_by_crosses_word",// 27 k in 2..=64 and model target is >= 64 elements... (approximation: k >= 32)
];
const R_ADV_ONE: usize = 0;
const R_BY0: usize = 1;
const R_BY1: usize = 2;
const R_BY_SMALL: usize = 3;
const R_BY_BIG: usize = 4;
const R_BY_OVF: usize = 5;
const R_END: usize = 6;
const R_AFTER_EXH: usize = 7;
const R_SEEK_BACK: usize = 8;
const R_SEEK_FWD: usize = 9;
const R_SEEK_PAST: usize = 10;
const R_FROM: usize = 11;
const R_FROM_PAST: usize = 12;
const R_GET_SOME: usize = 13;
const R_GET_NONE: usize = 14;
const R_PRED_SOME: usize = 15;
const R_PRED_NONE: usize = 16;
const R_PRED_DUP: usize = 17;
const R_ITER: usize = 18;
const R_META: usize = 19;
const R_EMPTY: usize = 20;
const R_256: usize = 21;
const R_512: usize = 22;
const R_DUPS: usize = 23;
const R_MAX: usize = 24;
const R_LW0: usize = 25;
const R_GAP: usize = 26;
const R_BY_32: usize = 27;

pub const FAULTS: &[&str] = &["restart", "clone", "out_of_range"];
const F_RESTART: usize = 0;
const F_CLONE: usize = 1;
const F_OOR: usize = 2;

pub fn gen_values(rng: &mut Rng, tier: Tier) -> Vec<u32> {
    let n = match rng.weighted(&[3, 4, 10, 22, 14, 12, 12, 10, 8, 5]) {
        0 => 0,
        1 => 1,
        2 => rng.urange(2, 5),
        3 => rng.urange(5, 40),
        4 => rng.urange(40, 130),
        5 => *rng.pick(&[63usize, 64, 65, 127, 128, 129]),
        6 => *rng.pick(&[254usize, 255, 256, 257, 258]),
        7 => *rng.pick(&[511usize, 512, 513, 767, 768, 769]),
        8 => rng.urange(300, 1200),
        _ => {
            if tier == Tier::Thorough {
                rng.urange(1200, 20000)
            } else {
                rng.urange(1200, 3000)
            }
        }
    };
    let mut v: Vec<u32> = Vec::with_capacity(n);
    if n == 0 {
        return v;
    }
    let shape = rng.below(9);
    let mut cur: u64 = match rng.below(4) {
        0 => 0,
        1 => rng.below(100),
        2 => rng.below(1 << 20),
        _ => rng.below(1 << 31),
    };
    let max = u32::MAX as u64;
    for i in 0..n {
        let step: u64 = match shape {
            0 => 1,                                  // dense run
            1 => rng.below(2),                       // many duplicates
            2 => rng.below(10),
            3 => rng.below(1000),
            4 => rng.below(1 << 20),
            5 => {
                // clusters far apart
                if rng.chance(1, 40) {
                    rng.below(1 << 28)
                } else {
                    rng.below(3)
                }
            }
            6 => 0, // all equal
            7 => {
                // dense, then one giant jump near the end
                if i + 1 == n || (i + 2 == n && rng.chance(1, 2)) {
                    max
                } else {
                    rng.below(2)
                }
            }
            _ => match rng.below(20) {
                0 => rng.below(1 << 30),
                1..=5 => 0,
                _ => rng.below(50),
            },
        };
        if i > 0 || shape == 7 {
            cur = (cur + step).min(max);
        }
        v.push(cur as u32);
    }
    if rng.chance(1, 12) {
        // force the top of the universe
        let k = rng.urange(1, 3.min(n));
        for x in v.iter_mut().rev().take(k) {
            *x = u32::MAX;
        }
    }
    v
}

fn gen_k(rng: &mut Rng, n: usize) -> u64 {
    match rng.weighted(&[6, 8, 30, 6, 6, 12, 8, 6, 6]) {
        0 => 0,
        1 => 1,
        2 => rng.range(2, 63),
        3 => 64,
        4 => 65,
        5 => rng.range(66, 400),
        6 => n as u64 + rng.below(3),
        7 => rng.range(n as u64 / 2, n as u64 * 2 + 5),
        _ => u64::MAX - rng.below(70),
    }
}

fn gen_index(rng: &mut Rng, n: usize) -> u64 {
    match rng.weighted(&[60, 6, 6, 6, 6, 6, 4]) {
        0 => {
            if n == 0 {
                0
            } else {
                rng.below(n as u64)
            }
        }
        1 => 0,
        2 => n.saturating_sub(1) as u64,
        3 => n as u64,
        4 => n as u64 + rng.range(1, 1000),
        5 => {
            // around a sample boundary
            let b = 256 * rng.range(1, 4);
            b.saturating_sub(rng.below(3)).saturating_add(rng.below(3))
        }
        _ => u64::MAX - rng.below(3),
    }
}

pub struct C03;

impl Scenario for C03 {
    type Case = Case;

    fn property(&self) -> &'static str {
        "C03"
    }
    fn engine(&self) -> &'static str {
        "histsim/c03"
    }
    fn reach_names(&self) -> &'static [&'static str] {
        REACH
    }
    fn fault_names(&self) -> &'static [&'static str] {
        FAULTS
    }

    fn generate(&self, rng: &mut Rng, tier: Tier) -> Case {
        let values = gen_values(rng, tier);
        let n = values.len();
        let steps = match rng.weighted(&[30, 45, 20, 5]) {
            0 => rng.urange(2, 10),
            1 => rng.urange(10, 50),
            2 => rng.urange(50, 150),
            _ => rng.urange(150, 400),
        };
        let n_slots = rng.urange(1, SLOTS);
        // per-slot temperament
        let temper: Vec<u64> = (0..n_slots).map(|_| rng.below(4)).collect();
        let fault_den = *rng.pick(&[0u64, 0, 40, 15, 6]);
        let mut events = Vec::with_capacity(steps);
        for _ in 0..steps {
            if fault_den > 0 && rng.below(fault_den) == 0 {
                if rng.chance(1, 2) {
                    events.push(Ev::Restart);
                } else {
                    events.push(Ev::Clone {
                        src: rng.below(SLOTS as u64) as u8,
                        dst: rng.below(SLOTS as u64) as u8,
                    });
                }
            }
            let s = rng.below(n_slots as u64) as u8;
            let w: [u32; 9] = match temper[s as usize] {
                0 => [60, 15, 5, 3, 2, 5, 5, 3, 2],  // stepper
                1 => [15, 55, 8, 5, 2, 5, 5, 3, 2],  // skipper
                2 => [15, 15, 40, 10, 5, 5, 5, 3, 2], // seeker
                _ => [20, 25, 15, 8, 4, 10, 10, 5, 3],
            };
            let ev = match rng.weighted(&w) {
                0 => Ev::AdvOne { s },
                1 => Ev::AdvBy { s, k: gen_k(rng, n) },
                2 => Ev::Seek {
                    s,
                    i: gen_index(rng, n),
                },
                3 => Ev::From {
                    s,
                    i: gen_index(rng, n),
                },
                4 => Ev::New { s },
                5 => Ev::Get {
                    i: gen_index(rng, n),
                },
                6 => {
                    let v = if n > 0 && rng.chance(2, 3) {
                        let x = values[rng.usize_below(n)];
                        match rng.below(3) {
                            0 => x,
                            1 => x.saturating_sub(1),
                            _ => x.saturating_add(1),
                        }
                    } else {
                        match rng.below(3) {
                            0 => 0,
                            1 => u32::MAX,
                            _ => rng.next_u64() as u32,
                        }
                    };
                    Ev::Pred { v }
                }
                7 => Ev::Iter {
                    take: if rng.chance(1, 2) { u64::MAX } else { rng.below(80) },
                },
                _ => Ev::Meta,
            };
            events.push(ev);
        }
        Case { values, events }
    }

    fn execute(&self, case: &Case, obs: &mut Obs) -> Result<(), Failure> {
        let vals = &case.values;
        let n = vals.len();
        // reach: data shape
        if n == 0 {
            obs.reach.hit(R_EMPTY);
        }
        if n >= 256 {
            obs.reach.hit(R_256);
        }
        if n >= 512 {
            obs.reach.hit(R_512);
        }
        if vals.windows(2).any(|w| w[0] == w[1]) {
            obs.reach.hit(R_DUPS);
        }
        if vals.last() == Some(&u32::MAX) {
            obs.reach.hit(R_MAX);
        }
        if n > 0 {
            let universe = *vals.last().unwrap() as u64 + 1;
            if universe <= n as u64 {
                obs.reach.hit(R_LW0);
            }
            let per = (universe / n as u64).max(1);
            if vals
                .windows(2)
                .any(|w| (w[1] - w[0]) as u64 / per >= 1024)
            {
                obs.reach.hit(R_GAP);
            }
        }

        let restarts = case.events.iter().filter(|e| matches!(e, Ev::Restart)).count();
        let efs: Vec<EliasFano> = (0..=restarts).map(|_| EliasFano::build(vals)).collect();
        let mut gen = 0usize;
        let mut cur: Vec<EliasFanoCursor<'_>> = (0..SLOTS).map(|_| efs[0].cursor()).collect();
        let mut pos: [usize; SLOTS] = [0; SLOTS];

        let fail = |kind: &str, seq: usize, ev: &Ev, got: Value, want: Value| Failure {
            class: format!("mismatch:{kind}"),
            seq,
            detail: json!({"op": serde_json::to_value(ev).unwrap_or(Value::Null), "got": got, "want": want}),
        };

        for (seq, ev) in case.events.iter().enumerate() {
            let ef = &efs[gen];
            let client = match ev {
                Ev::AdvOne { s } | Ev::AdvBy { s, .. } | Ev::Seek { s, .. } | Ev::From { s, .. } | Ev::New { s } => *s,
                Ev::Clone { dst, .. } => *dst,
                _ => 200,
            };
            obs.step(client);
            let mut touched: Option<(usize, Option<Option<u32>>)> = None; // slot, returned value
            match ev {
                Ev::AdvOne { s } => {
                    let s = *s as usize % SLOTS;
                    if pos[s] >= n {
                        obs.reach.hit(R_AFTER_EXH);
                    }
                    obs.reach.hit(R_ADV_ONE);
                    let ret = cur[s].advance_one();
                    pos[s] = (pos[s] + 1).min(n);
                    if pos[s] == n {
                        obs.reach.hit(R_END);
                    }
                    touched = Some((s, Some(ret)));
                }
                Ev::AdvBy { s, k } => {
                    let s = *s as usize % SLOTS;
                    if pos[s] >= n {
                        obs.reach.hit(R_AFTER_EXH);
                    }
                    match *k {
                        0 => obs.reach.hit(R_BY0),
                        1 => obs.reach.hit(R_BY1),
                        2..=64 => {
                            obs.reach.hit(R_BY_SMALL);
                            if *k >= 32 {
                                obs.reach.hit(R_BY_32);
                            }
                        }
                        _ => obs.reach.hit(R_BY_BIG),
                    }
                    let k = *k as usize;
                    if pos[s].checked_add(k).is_none() {
                        obs.reach.hit(R_BY_OVF);
                        obs.faults.hit(F_OOR);
                    }
                    let ret = cur[s].advance_by(k);
                    pos[s] = pos[s].saturating_add(k).min(n);
                    if pos[s] == n && k > 0 {
                        obs.reach.hit(R_END);
                    }
                    touched = Some((s, Some(ret)));
                }
                Ev::Seek { s, i } => {
                    let s = *s as usize % SLOTS;
                    let i = *i as usize;
                    if pos[s] >= n {
                        obs.reach.hit(R_AFTER_EXH);
                    }
                    if i >= n {
                        obs.reach.hit(R_SEEK_PAST);
                        obs.faults.hit(F_OOR);
                    } else if i < pos[s] {
                        obs.reach.hit(R_SEEK_BACK);
                    } else {
                        obs.reach.hit(R_SEEK_FWD);
                    }
                    let ret = cur[s].seek(i);
                    pos[s] = i.min(n);
                    touched = Some((s, Some(ret)));
                }
                Ev::From { s, i } => {
                    let s = *s as usize % SLOTS;
                    let i = *i as usize;
                    obs.reach.hit(R_FROM);
                    if i >= n {
                        obs.reach.hit(R_FROM_PAST);
                        obs.faults.hit(F_OOR);
                    }
                    cur[s] = ef.cursor_from(i);
                    pos[s] = i.min(n);
                    touched = Some((s, None));
                }
                Ev::New { s } => {
                    let s = *s as usize % SLOTS;
                    cur[s] = ef.cursor();
                    pos[s] = 0;
                    touched = Some((s, None));
                }
                Ev::Clone { src, dst } => {
                    let (a, b) = (*src as usize % SLOTS, *dst as usize % SLOTS);
                    obs.faults.hit(F_CLONE);
                    let c = cur[a].clone();
                    cur[b] = c;
                    pos[b] = pos[a];
                    touched = Some((b, None));
                }
                Ev::Restart => {
                    obs.faults.hit(F_RESTART);
                    gen += 1;
                    let ef2 = &efs[gen];
                    for s in 0..SLOTS {
                        let idx = cur[s].index();
                        cur[s] = ef2.cursor_from(idx);
                    }
                    // every cursor must continue identically: checked below for all slots
                    for s in 0..SLOTS {
                        check_cursor(&cur[s], vals, pos[s], None, seq, ev, &fail)?;
                    }
                }
                Ev::Get { i } => {
                    let i = *i as usize;
                    let got = ef.get(i);
                    let want = vals.get(i).copied();
                    if want.is_some() {
                        obs.reach.hit(R_GET_SOME);
                    } else {
                        obs.reach.hit(R_GET_NONE);
                    }
                    if got != want {
                        return Err(fail("get", seq, ev, json!(got), json!(want)));
                    }
                }
                Ev::Pred { v } => {
                    let k = vals.partition_point(|x| x <= v);
                    let want = if k == 0 { None } else { Some((k - 1, vals[k - 1])) };
                    match want {
                        None => obs.reach.hit(R_PRED_NONE),
                        Some((i, x)) => {
                            obs.reach.hit(R_PRED_SOME);
                            if i > 0 && vals[i - 1] == x {
                                obs.reach.hit(R_PRED_DUP);
                            }
                        }
                    }
                    let got = ef.predecessor(*v);
                    if got != want {
                        return Err(fail("predecessor", seq, ev, json!(got), json!(want)));
                    }
                }
                Ev::Iter { take } => {
                    let lim = (*take).min(n as u64 + 1) as usize;
                    let mut it = ef.into_iter();
                    let mut i = 0usize;
                    while i < lim {
                        let got = it.next();
                        let want = vals.get(i).copied();
                        if got != want {
                            return Err(fail("iter", seq, ev, json!({"at": i, "item": got}), json!({"at": i, "item": want})));
                        }
                        if got.is_none() {
                            break;
                        }
                        i += 1;
                    }
                    if *take == u64::MAX {
                        obs.reach.hit(R_ITER);
                    }
                }
                Ev::Meta => {
                    obs.reach.hit(R_META);
                    let got = (ef.len(), ef.universe(), ef.is_empty());
                    let want = (n, vals.last().map_or(0, |&x| x as u64 + 1), n == 0);
                    if got != want {
                        return Err(fail(
                            "meta",
                            seq,
                            ev,
                            json!([got.0, got.1, got.2]),
                            json!([want.0, want.1, want.2]),
                        ));
                    }
                }
            }
            if let Some((s, ret)) = touched {
                check_cursor(&cur[s], vals, pos[s], ret, seq, ev, &fail)?;
            }
        }
        Ok(())
    }

    fn nontrivial(&self, case: &Case, obs: &Obs) -> bool {
        let kinds = obs.reach.v[..=R_FROM_PAST].iter().filter(|&&x| x > 0).count();
        case.values.len() >= 2 && kinds >= 3 && obs.ops >= 3
    }

    fn n_events(&self, case: &Case) -> usize {
        case.events.len()
    }

    fn keep_events(&self, case: &Case, keep: &[bool]) -> Case {
        Case {
            values: case.values.clone(),
            events: case
                .events
                .iter()
                .zip(keep)
                .filter(|(_, k)| **k)
                .map(|(e, _)| e.clone())
                .collect(),
        }
    }

    fn simplifications(&self, case: &Case) -> Vec<Case> {
        let mut out = Vec::new();
        let n = case.values.len();
        // all on slot 0
        if case.events.iter().any(|e| match e {
            Ev::AdvOne { s } | Ev::AdvBy { s, .. } | Ev::Seek { s, .. } | Ev::From { s, .. } | Ev::New { s } => *s != 0,
            _ => false,
        }) {
            let mut c = case.clone();
            for e in &mut c.events {
                match e {
                    Ev::AdvOne { s } | Ev::AdvBy { s, .. } | Ev::Seek { s, .. } | Ev::From { s, .. } | Ev::New { s } => *s = 0,
                    _ => {}
                }
            }
            out.push(c);
        }
        // shrink values: truncate, drop head (shift indices), drop one element, compress gaps
        if n > 0 {
            for cut in [n / 2, n - n / 4, n - 1] {
                if cut < n {
                    let mut c = case.clone();
                    c.values.truncate(cut);
                    out.push(c);
                }
            }
            for d in [n / 2, n / 4, 1] {
                if d > 0 && d < n {
                    let mut c = case.clone();
                    c.values.drain(0..d);
                    for e in &mut c.events {
                        match e {
                            Ev::Seek { i, .. } | Ev::From { i, .. } | Ev::Get { i } => {
                                if *i >= d as u64 && *i < (1 << 40) {
                                    *i -= d as u64;
                                }
                            }
                            _ => {}
                        }
                    }
                    out.push(c);
                }
            }
            // subtract the minimum
            let base = case.values[0];
            if base > 0 {
                let mut c = case.clone();
                for x in &mut c.values {
                    *x -= base;
                }
                for e in &mut c.events {
                    if let Ev::Pred { v } = e {
                        *v = v.saturating_sub(base);
                    }
                }
                out.push(c);
            }
            // halve all gaps
            if case.values.windows(2).any(|w| w[1] - w[0] > 1) {
                let mut c = case.clone();
                let mut acc = c.values[0];
                let mut prev = case.values[0];
                for (i, x) in c.values.iter_mut().enumerate() {
                    if i > 0 {
                        let gap = case.values[i] - prev;
                        prev = case.values[i];
                        acc += gap / 2;
                        *x = acc;
                    }
                }
                out.push(c);
            }
        }
        // numeric arguments
        for (idx, e) in case.events.iter().enumerate() {
            let mut push = |ne: Ev| {
                let mut c = case.clone();
                c.events[idx] = ne;
                out.push(c);
            };
            match e {
                Ev::AdvBy { s, k } if *k > 0 => {
                    if *k > (1 << 40) && *k != u64::MAX {
                        push(Ev::AdvBy { s: *s, k: u64::MAX });
                    }
                    push(Ev::AdvBy { s: *s, k: *k / 2 });
                    push(Ev::AdvBy { s: *s, k: *k - 1 });
                }
                Ev::Seek { s, i } if *i > 0 => {
                    push(Ev::Seek { s: *s, i: *i / 2 });
                    push(Ev::Seek { s: *s, i: *i - 1 });
                }
                Ev::From { s, i } if *i > 0 => {
                    push(Ev::From { s: *s, i: *i / 2 });
                    push(Ev::From { s: *s, i: *i - 1 });
                }
                Ev::Get { i } if *i > 0 => {
                    push(Ev::Get { i: *i / 2 });
                    push(Ev::Get { i: *i - 1 });
                }
                Ev::Pred { v } if *v > 0 => {
                    push(Ev::Pred { v: *v / 2 });
                    push(Ev::Pred { v: *v - 1 });
                }
                _ => {}
            }
        }
        out
    }

    fn fingerprint(&self, case: &Case) -> (u64, u64) {
        let mut d = Fnv::default();
        for v in &case.values {
            d.u64(*v as u64);
        }
        let mut s = Fnv::default();
        s.bytes(serde_json::to_string(&case.events).unwrap_or_default().as_bytes());
        (d.0, s.0)
    }

    fn sample(&self, case: &Case) -> Value {
        json!({
            "n_values": case.values.len(),
            "values_prefix": case.values.iter().take(16).collect::<Vec<_>>(),
            "values_last": case.values.last(),
            "n_events": case.events.len(),
            "events_prefix": case.events.iter().take(14).collect::<Vec<_>>(),
        })
    }

    fn rule(&self) -> String {
        "Each run draws a non-decreasing u32 sequence (empty, single, dense runs, duplicate runs, all-equal, clusters far apart, one giant jump, \
         top of universe; lengths around 64/128/256/512/768 and up to 3000 quick / 20000 thorough) and an operation history over 1-3 cursors: \
         advance_one, advance_by(k) with k in {0,1,2..63,64,65,66..400,~len,>len,near usize::MAX}, seek, cursor_from, cursor, plus stateless \
         get/predecessor/iteration/len/universe; faults: clone a cursor mid-history, restart (rebuild the sequence and re-create every cursor by cursor_from(index())). \
         After every operation (return value, current(), index(), is_exhausted()) must equal the plain-vector model. Non-trivial: >= 2 elements, >= 3 distinct \
         cursor-operation classes and >= 3 steps. Interleaving of different cursors is NOT counted as coverage (each cursor owns its state). \
         distinct_nontrivial = set bits of a one-hash bit table over hash(values) x hash(events): a lower bound."
            .into()
    }

    fn real_vs_stub(&self) -> Value {
        json!({
            "real": ["succinctly::bits::EliasFano::{build,len,is_empty,universe,get,predecessor,cursor,cursor_from,into_iter}",
                     "succinctly::bits::EliasFanoCursor::{current,index,is_exhausted,advance_one,advance_by,seek,clone}",
                     "succinctly::bits::scan_select and util::broadword::select_in_word (through select1)"],
            "stub": [],
            "model": "Vec<u32> with a saturating position"
        })
    }

    fn assumptions(&self) -> Vec<String> {
        vec![
            "input sequences are non-decreasing (the constructor's documented precondition)".into(),
            "a cursor moved past the end reports index() == len(), current() == None, and stays exhausted under advance_*; seek/cursor_from re-position it".into(),
            "size_hint of the iterator is not part of the statement and is not checked".into(),
        ]
    }
}

#[allow(clippy::too_many_arguments)]
fn check_cursor(
    c: &EliasFanoCursor<'_>,
    vals: &[u32],
    pos: usize,
    ret: Option<Option<u32>>,
    seq: usize,
    ev: &Ev,
    fail: &dyn Fn(&str, usize, &Ev, Value, Value) -> Failure,
) -> Result<(), Failure> {
    let want_cur = vals.get(pos).copied();
    let got = (c.current(), c.index(), c.is_exhausted());
    let want = (want_cur, pos, pos >= vals.len());
    let kind = match ev {
        Ev::AdvOne { .. } => "advance_one",
        Ev::AdvBy { .. } => "advance_by",
        Ev::Seek { .. } => "seek",
        Ev::From { .. } => "cursor_from",
        Ev::New { .. } => "cursor",
        Ev::Clone { .. } => "clone",
        Ev::Restart => "restart",
        _ => "other",
    };
    if let Some(r) = ret {
        if r != want_cur {
            return Err(fail(kind, seq, ev, json!({"returned": r}), json!({"returned": want_cur})));
        }
    }
    if got != want {
        return Err(fail(
            kind,
            seq,
            ev,
            json!({"current": got.0, "index": got.1, "exhausted": got.2}),
            json!({"current": want.0, "index": want.1, "exhausted": want.2}),
        ));
    }
    Ok(())
}
