//! Command-line driver shared by the history simulators.
//!
//! Exit codes: 0 = property held on everything explored; 1 = violation (a
//! `VIOLATION property=<id> replay=<path>` line is printed); 2 = harness error.

use serde_json::{json, Value};

use crate::core::{
    env_seed, explore, hang_seconds, install_quiet_panic_hook, load_known, matches_known, minimise, reach_selfcheck,
    replay, replay_all, run_seed, with_deadline, write_evidence, write_replay, ExploreCfg, Failure, KnownFinding, Outcome, Rng,
    Scenario, Tier,
};

pub struct Args {
    pub tier: Tier,
    pub runs: Option<u64>,
    pub seed: u64,
    pub workers: usize,
    pub log_hash: bool,
    pub replay: Option<String>,
    pub no_evidence: bool,
}

pub fn parse_args(args: &[String]) -> Args {
    let mut a = Args {
        tier: match std::env::var("VERIF_TIER").as_deref() {
            Ok("thorough") => Tier::Thorough,
            _ => Tier::Quick,
        },
        runs: None,
        seed: env_seed(),
        workers: std::thread::available_parallelism().map_or(8, |n| n.get()).min(16),
        log_hash: false,
        replay: None,
        no_evidence: false,
    };
    let mut i = 0;
    while i < args.len() {
        let need = |i: usize| -> &str {
            args.get(i + 1).map(String::as_str).unwrap_or_else(|| {
                eprintln!("harness error: missing value after {}", args[i]);
                std::process::exit(2)
            })
        };
        match args[i].as_str() {
            "--tier" => {
                a.tier = match need(i) {
                    "quick" => Tier::Quick,
                    "thorough" => Tier::Thorough,
                    t => {
                        eprintln!("harness error: unknown tier {t}");
                        std::process::exit(2)
                    }
                };
                i += 1;
            }
            "--runs" => {
                a.runs = Some(need(i).parse().unwrap_or_else(|_| std::process::exit(2)));
                i += 1;
            }
            "--seed" => {
                a.seed = need(i).parse().unwrap_or_else(|_| std::process::exit(2));
                i += 1;
            }
            "--workers" => {
                a.workers = need(i).parse().unwrap_or_else(|_| std::process::exit(2));
                i += 1;
            }
            "--log-hash" => a.log_hash = true,
            "--no-evidence" => a.no_evidence = true,
            "--replay" => {
                a.replay = Some(need(i).to_string());
                i += 1;
            }
            other => {
                eprintln!("harness error: unknown argument {other}");
                std::process::exit(2);
            }
        }
        i += 1;
    }
    a
}

fn known_lines<S: Scenario>(s: &S, known: &[KnownFinding]) -> Vec<String> {
    // Replay each known finding's canonical case; print a KNOWN-FINDING line
    // for each that still fails.
    let mut lines = Vec::new();
    for k in known {
        let Some(rel) = &k.canonical_replay else { continue };
        let path = crate::core::verif_root().join(rel);
        let text = match std::fs::read_to_string(&path) {
            Ok(t) => t,
            Err(e) => {
                eprintln!("harness error: cannot read {}: {e}", path.display());
                std::process::exit(2);
            }
        };
        match replay_all(s, &text) {
            Ok(fs) if fs.iter().any(|f| matches_known(f, std::slice::from_ref(k)).is_some()) => {
                lines.push(format!("KNOWN-FINDING: property={} {} [{}]", s.property(), k.what, k.id));
            }
            Ok(fs) if !fs.is_empty() => {
                // The canonical case fails differently now: that is news.
                println!(
                    "note: canonical case of known finding {} now fails with class {:?}",
                    k.id, fs[0].class
                );
            }
            Ok(_) => {
                println!(
                    "note: canonical case of known finding {} no longer fails (fixed?)",
                    k.id
                );
            }
            Err(e) => {
                eprintln!("harness error: bad replay file {}: {e}", path.display());
                std::process::exit(2);
            }
        }
    }
    lines
}

pub fn run_scenario<S: Scenario>(s: &S, level: &str, quick_runs: u64, thorough_runs: u64, a: &Args) -> i32 {
    install_quiet_panic_hook();

    if let Some(path) = &a.replay {
        let text = match std::fs::read_to_string(path) {
            Ok(t) => t,
            Err(e) => {
                eprintln!("harness error: cannot read {path}: {e}");
                return 2;
            }
        };
        let hang = hang_seconds();
        let res = with_deadline(
            hang,
            || replay(s, &text),
            || {
                println!("replayed: class=hang:operation-did-not-return-within-{hang}s");
                println!("VIOLATION property={} replay={}", s.property(), path);
            },
        );
        return match res {
            Ok(Some(f)) => {
                println!("replayed: class={} seq={} detail={}", f.class, f.seq, f.detail);
                let known = load_known(s.property());
                if let Some(k) = matches_known(&f, &known) {
                    println!("KNOWN-FINDING: property={} {} [{}]", s.property(), known[k].what, known[k].id);
                    0
                } else {
                    println!("VIOLATION property={} replay={}", s.property(), path);
                    1
                }
            }
            Ok(None) => {
                println!("replay of {path}: no violation (the recorded failure does not recur)");
                0
            }
            Err(e) => {
                eprintln!("harness error: bad replay file {path}: {e}");
                2
            }
        };
    }

    let runs = a.runs.unwrap_or(match a.tier {
        Tier::Quick => quick_runs,
        Tier::Thorough => thorough_runs,
    });
    let cfg = ExploreCfg {
        seed: a.seed,
        tier: a.tier,
        runs,
        workers: a.workers,
        want_log_hash: a.log_hash,
    };
    println!(
        "VERIF_SEED={} property={} engine={} tier={} runs={} workers={}",
        cfg.seed,
        s.property(),
        s.engine(),
        cfg.tier.name(),
        cfg.runs,
        cfg.workers
    );
    let known = load_known(s.property());
    let klines = known_lines(s, &known);
    for l in &klines {
        println!("{l}");
    }

    let on_hang = |run: u64| {
        // A run that never returns: report it un-minimised (its candidates would hang too).
        let mut rng = Rng::new(run_seed(cfg.seed, s.property(), run));
        let case = s.generate(&mut rng, cfg.tier);
        let f = Failure {
            class: format!("hang:operation-did-not-return-within-{}s", hang_seconds()),
            seq: 0,
            detail: json!({"note": "one simulated run (normally < 1 ms) did not return; reported without minimisation"}),
        };
        let path = write_replay(s, cfg.seed, run, s.n_events(&case), &case, &f);
        println!("violation at run {run} (seed {}): class={}", cfg.seed, f.class);
        println!("VIOLATION property={} replay={}", s.property(), path.display());
        if !a.no_evidence {
            let out: Outcome<S::Case> = Outcome::empty(s.reach_names(), s.fault_names(), s.sample(&case));
            write_evidence(s, level, &cfg, &out, 1, &klines, json!({"violation": {"run": run, "class": f.class, "replay": path.display().to_string()}}));
        }
        std::process::exit(1);
    };
    let out = explore(s, &cfg, &known, &on_hang);
    if a.log_hash {
        println!("LOGHASH {:016x}", out.log_hash);
    }

    let mut violations = 0u64;
    let mut extra = json!({});
    let mut code = 0;
    if let Some((run, _case, failure)) = &out.first_failure {
        if failure.class.starts_with("harness:") {
            eprintln!("harness error at run {run}: {} {}", failure.class, failure.detail);
            return 2;
        }
    }
    if let Some((run, case, failure)) = &out.first_failure {
        violations = 1;
        let orig_events = s.n_events(case);
        let progress: std::sync::Mutex<Option<(S::Case, Failure)>> = std::sync::Mutex::new(None);
        let shrunk = with_deadline(
            300,
            || minimise(s, case.clone(), failure.clone(), &progress),
            || {
                // minimisation got stuck (a candidate hangs): report the best case so far
                let (c, f) = progress.lock().ok().and_then(|g| g.clone()).unwrap_or((case.clone(), failure.clone()));
                let path = write_replay(s, cfg.seed, *run, orig_events, &c, &f);
                println!("violation at run {} (seed {}): class={} (minimisation interrupted)", run, cfg.seed, f.class);
                println!("detail: {}", f.detail);
                println!("VIOLATION property={} replay={}", s.property(), path.display());
                if !a.no_evidence {
                    write_evidence(s, level, &cfg, &out, 1, &klines, json!({"violation": {"run": run, "class": f.class, "replay": path.display().to_string()}}));
                }
            },
        );
        let path = write_replay(s, cfg.seed, *run, orig_events, &shrunk.case, &shrunk.failure);
        println!(
            "violation at run {} (seed {}): class={} | events {} -> {} after {} shrink attempts",
            run,
            cfg.seed,
            shrunk.failure.class,
            orig_events,
            s.n_events(&shrunk.case),
            shrunk.attempts
        );
        println!("detail: {}", shrunk.failure.detail);
        println!("VIOLATION property={} replay={}", s.property(), path.display());
        extra = json!({
            "violation": {
                "run": run,
                "class": shrunk.failure.class,
                "detail": shrunk.failure.detail,
                "replay": path.display().to_string(),
                "events_before": orig_events,
                "events_after": s.n_events(&shrunk.case),
            }
        });
        code = 1;
    } else {
        let missing = reach_selfcheck(s, &out);
        if !missing.is_empty() && a.runs.is_none() {
            eprintln!(
                "harness error: reach probes stuck at zero (workload must change): {missing:?}"
            );
            code = 2;
        }
        extra = json!({ "reach_selfcheck_missing": missing });
    }

    println!(
        "runs={} nontrivial={} distinct_nontrivial>={} distinct_interleavings>={} ops={} wall={:.1}s known_hits={:?}",
        out.runs_done,
        out.nontrivial_runs,
        out.distinct_nontrivial,
        out.distinct_interleavings,
        out.ops_total,
        out.wall_s,
        out.known_hits
    );
    if !a.no_evidence {
        write_evidence(s, level, &cfg, &out, violations, &klines, extra);
    }
    code
}

pub fn failure_matches(f: &Failure, class: &str) -> bool {
    f.class == class
}

pub fn _unused(_: Value) {}
