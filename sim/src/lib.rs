//! Deterministic simulation harness for rust-works/succinctly.
pub mod core;
pub mod c12;
pub mod driver;
