//! Deterministic simulation harness for rust-works/succinctly.
pub mod core;
pub mod c03;
pub mod c12;
pub mod c17;
pub mod c31;
pub mod progen;
pub mod jqrun;
pub mod alloc;
pub mod driver;
