//! Seeded generators for jq programs and JSON inputs (the traffic the
//! simulated machine serves under C30).
//!
//! Programs terminate by construction: no recursive `def`, no
//! `repeat`/`while`/`until`/`recurse(f)`, generators are bounded, and extreme
//! numbers never become loop bounds.

use crate::core::Rng;

pub const EXTREME: &[&str] = &[
    "infinite", "-infinite", "nan", "-0", "0.5", "-1", "-0.5", "2147483647", "2147483648", "4294967295",
    "4294967296", "9007199254740991", "9007199254740993", "9223372036854775807", "9223372036854775808",
    "-9223372036854775808", "18446744073709551615", "18446744073709551616", "1e9", "3e9", "1e10", "1e12",
    "1e15", "1e17", "1e18", "1e19", "1e30", "1e300", "-1e18", "-1e300", "1e-300", "1e1000", "-1e1000",
    "1e5",
];

const SMALL: &[&str] = &["0", "1", "2", "3", "5", "10", "-1", "-2", "1.5", "7", "100", "-1.5", "-1.25", "2.5", "-2.5", "0.1"];
const STRS: &[&str] = &[
    "\"\"", "\"a\"", "\"ab\"", "\"abc\"", "\"a,b\"", "\"x y\"", "\"é\"", "\"日本\"", "\"😀\"", "\"a\\nb\"", "\"\\u00e9\"",
    "\"1\"", "\"[1,2]\"", "\"{\\\"a\\\":1}\"", "\"k\"", "\"%Y\"", "\"YWJj\"", "\"a*\"", "\"(a)(b)?\"", "\"\\\\d+\"", "\"g\"",
    "\"\\ud83d\"", "\"\\u0000\"", "\"１２\"", "\"[1,\"", "\"{\\\"a\\\"\"", "\"nan\"", "\"1e1000\"", "\"0x10\"", "\" 1 \"", "\"-\"",
    "\"2015-03-05T23:51:47Z\"", "\"%Y-%m-%dT%H:%M:%SZ\"", "\"(?<x>a)|b\"", "\"gx\"", "\"a\\tb\"",
];
const LITERALS: &[&str] = &[
    "[[1,2],[3]]", "[{\"key\":\"a\",\"value\":1}]", "{\"a\":{\"b\":[1,2,{\"c\":null}]}}", "[1,[2,[3,[4]]]]", "[\"a\",\"b\"]", "[3,1,2]",
    "[[[0],1],[[0]]]", "{\"a\":1,\"b\":2}", "[{\"name\":\"n\",\"v\":2}]", "[[0,\"a\"],[1,\"b\"]]", "[null,true,1,\"a\",[],{}]", "[65,233,128512]",
    "[2015,2,5,23,51,47,4,63]", "{\"key\":null}", "[[],[1]]", "[{\"a\":1},{\"a\":2}]",
];

const MB_STRS: &[&str] = &[
    "\"\"", "\"a\"", "\"é\"", "\"aé\"", "\"éa\"", "\"日本語\"", "\"😀\"", "\"a😀b\"", "\"e\\u0301\"", "\"\\ud83d\"", "\"\\udc00x\"", "\"ａｂ\"",
    "\"a,b;c\"", "\"  x  \"", "\"ÀÉÎ\"", "\"ßẞ\"", "\"\\u0000a\"", "\"\\t\\n\"", "\"aaa\"", "\"abcabc\"", "\"12é34\"", "\"%41%zz%C3\"", "\"YQ==\"", "\"w6k=\"", "\"!!!!\"",
];
const REGEXES: &[&str] = &[
    "\"\"", "\"a\"", "\"é\"", "\".\"", "\"(?<n>.)\"", "\"(a)|(b)\"", "\"\\\\b\"", "\"^\"", "\"$\"", "\"[^a]\"", "\"\\\\p{L}+\"", "\"(\"", "\"[\"", "\"a{2,1}\"",
    "\"(?i)É\"", "\"\\\\d*\"", "\"(?<x>a)(?<y>b)?\"", "\"a*?\"", "\"(a*)*\"", "\".{0}\"", "\"\\\\s+\"", "\"😀\"", "\"(?<n>)\"",
];
const RE_FLAGS: &[&str] = &["\"g\"", "\"i\"", "\"x\"", "\"gi\"", "\"n\"", "\"gx\"", "\"l\"", "\"s\"", "null", "\"z\"", "\"\"", "\"gn\"", "\"p\""];
const REPLS: &[&str] = &["\"x\"", "\"\\(.n)\"", "\"\\(.)\"", "\"\"", "\"é\"", "\"\\(.captures)\"", "\"<\\(.x)\\(.y)>\"", "(\"a\",\"b\")", "empty"];
const CODEPOINTS: &[&str] = &["0", "65", "233", "55296", "57343", "1114111", "1114112", "-1", "1.5", "1e18", "\"a\"", "null", "128512", "4294967296"];
const PATH_LITS: &[&str] = &[
    "[]", "[\"a\"]", "[0]", "[-1]", "[\"a\",0]", "[1.5]", "[null]", "[{\"start\":1,\"end\":null}]", "[{\"start\":-1e18,\"end\":1e18}]",
    "[\"a\",{\"start\":0}]", "[true]", "[[0]]", "[1e18]", "[-1e18]", "[\"a\",\"b\",\"c\"]", "[0,0,0]", "[{\"start\":0.5,\"end\":1.5}]", "[{\"start\":null}]", "[{}]",
];
const HETERO: &[&str] = &[
    "[nan, 1, null, \"a\", [], {}]", "[nan, nan]", "[{}, [], \"\", 0, null, false, true]", "[[1],[2,3],[]]", "[1,[2]]", "[{\"a\":nan},{\"a\":1},{\"a\":null}]",
    "[1e1000, -1e1000, 0, -0]", "[\"b\",\"a\",\"é\",\"B\"]", "[[], [[]], [[[]]]]", "[{\"a\":1,\"b\":2},{\"b\":2,\"a\":1}]", "[null]", "[]",
];


/// Every builtin keyword the parser knows, except syntax words, file I/O (`load`) and the
/// ones that do not terminate or blow up by design with arbitrary arguments
/// (`repeat`, `while`, `until`, `recurse(f)`, `range`, `combinations`).
const CENSUS: &[&str] = &[
    "IN", "INDEX", "abs", "acos", "acosh", "add", "all", "anchor", "any", "arrays", "ascii_downcase", "ascii_upcase", "asin", "asinh",
    "at_offset", "at_position", "atan", "atan2", "atanh", "booleans", "bsearch", "builtins", "capture", "ceil", "column", "contains", "cos",
    "cosh", "debug", "del", "delpaths", "di", "document_index", "empty", "endswith", "env", "error", "exp", "exp10", "exp2", "explode", "fabs",
    "fileIndex", "file_index", "finites", "first", "flatten", "floor", "from_entries", "from_unix", "fromdate", "fromdateiso8601", "fromjson",
    "fromjsonstream", "fromstream", "getpath", "gmtime", "group_by", "gsub", "halt", "halt_error", "has", "implode", "in", "index", "indices",
    "infinite", "input", "input_line_number", "inputs", "inside", "isarray", "isboolean", "isempty", "isfinite", "isinfinite", "isnan",
    "isnormal", "isnull", "isnumber", "isobject", "isstring", "isvalid", "iterables", "join", "key", "keys", "keys_unsorted", "kind", "last",
    "leaf_paths", "length", "limit", "line", "line_comment", "localtime", "log", "log10", "log2", "ltrim", "ltrimstr", "map", "map_values",
    "match", "max", "max_by", "min", "min_by", "mktime", "nan", "normals", "not", "now", "nth", "null", "nulls", "numbers",
    "objects", "omit", "parent", "path", "paths", "pick", "pivot", "pow", "reverse", "rindex", "round", "rtrim",
    "rtrimstr", "scalars", "scan", "select", "setpath", "shuffle", "sin", "sinh", "skip", "sort", "sort_by", "split", "split_doc", "splits",
    "sqrt", "startswith", "stderr", "strenv", "strftime", "strings", "strptime", "style", "sub", "tag", "tan", "tanh", "test", "to_entries",
    "to_unix", "toboolean", "todate", "todateiso8601", "tojson", "tojsonstream", "tonumber", "tostream", "tostring", "transpose", "trim",
    "trunc", "truncate_stream", "type", "tz", "unique", "unique_by", "utf8bytelength", "values", "walk", "with_entries", "significand",
    "drem", "ldexp", "scalb", "scalbln", "nearbyint", "logb", "gamma", "lgamma", "tgamma", "frexp", "modf", "cbrt", "expm1", "log1p", "ceil",
    "getpath", "splits", "ascii", "tojson", "toarray", "have_literal_numbers", "have_decnum", "trimstr", "ltrimstr", "input_filename",
    "get_search_list", "error", "add", "limit", "first", "getpath", "env", "halt_error", "abs", "pick", "debug", "scan", "splits", "@base32", "@base32d",
    "@base64", "@base64d", "@csv", "@tsv", "@html", "@json", "@sh", "@text", "@uri", "@urid", "@yaml", "@props", "@dsv",
];

/// Strings with an internal structure that some builtin parses (offsets, dates, formats,
/// numbers, encodings). `structured()` corrupts one of them with a multi-byte character.
const STRUCTURED: &[&str] = &[
    "+01:00", "-0530", "+05", "-12:30", "+0000", "2015-03-05T23:51:47Z", "10:20:30", "2024-02-30", "2024-13-15", "%Y-%m-%d", "%FT%TZ", "%F", "%D %T",
    "1e10", "0x1F", "12.5e-3", "-0.0", "1_000", "true", "a=b&c=d", "a,b,\\\"c\\\"", "YWJj", "YQ==", "%41%42", "%C3%A9", "{\\\"a\\\":1}", "[1,2]", "key: value",
    "UTC", "America/New_York", "Z", "1425599507", "Mon, 05 Mar 2015", "05/03/15", "23:51", "PT1H", "1.2.3", "a.b[0].c", "$.a", "/a/b",
];

const FIELDS: &[&str] = &["a", "b", "c", "k", "é", "a_b", "x1"];
const ZERO_ARG: &[&str] = &[
    "length", "utf8bytelength", "keys", "keys_unsorted", "values", "type", "tostring", "tonumber", "tojson", "fromjson",
    "explode", "implode", "reverse", "sort", "unique", "flatten", "add", "min", "max", "floor", "ceil", "sqrt", "fabs",
    "abs", "round", "trunc", "not", "empty", "to_entries", "from_entries", "transpose", "first", "last", "paths",
    "leaf_paths", "any", "all", "infinite", "nan", "isinfinite", "isnan", "isnormal", "isvalid(.)", "ascii_downcase",
    "ascii_upcase", "ltrim", "rtrim", "trim", "env", "$ENV", "now", "input", "tostream", "combinations", "gmtime",
    "mktime", "todate", "fromdate", "todateiso8601", "fromdateiso8601", "localtime", "@base64", "@base64d", "@uri", "@urid", "@csv", "@tsv",
    "@html", "@sh", "@json", "@text", "builtins", "input_line_number", "recurse", "..", "scalars", "arrays", "objects",
    "numbers", "strings", "nulls", "booleans", "iterables", "exp", "exp2", "exp10", "log", "log2", "log10", "sin", "cos",
    "tan", "asin", "acos", "atan", "sinh", "cosh", "tanh", "halt", "error", "toboolean", "significand", "getpath([])",
    "tojsonstream", "splits(\"a\")", "ascii", "@props", "@yaml", "line", "column", "key", "parent", "document_index",
    "finites", "normals", "shuffle", "pivot", "to_unix", "from_unix", "tz(\"UTC\")", "kind", "tag", "style", "anchor",
];

pub struct ProgGen<'a> {
    pub rng: &'a mut Rng,
    /// Percent of numeric operands drawn from the extreme pool (0 = fault-free traffic).
    pub extreme_pct: u64,
    budget: i32,
    vars: Vec<String>,
    labels: Vec<String>,
    fresh: u32,
    /// `def` is disabled for programs that will be mutated at character level,
    /// so that a mutation cannot turn a definition into a recursive one.
    pub allow_def: bool,
}

impl<'a> ProgGen<'a> {
    pub fn new(rng: &'a mut Rng, extreme_pct: u64) -> Self {
        let budget = match rng.weighted(&[30, 45, 20, 5]) {
            0 => 3,
            1 => 8,
            2 => 18,
            _ => 40,
        };
        Self {
            rng,
            extreme_pct,
            budget,
            vars: Vec::new(),
            labels: Vec::new(),
            fresh: 0,
            allow_def: true,
        }
    }

    /// A number literal with a very long mantissa and/or an extreme exponent.
    pub fn long_literal(rng: &mut Rng) -> String {
        let zeros = *rng.pick(&[0usize, 1, 17, 307, 308, 323, 324, 400, 1073, 1074, 1099, 1100, 1101, 1500, 5000]);
        let exp = *rng.pick(&["", "e1", "e-1", "e308", "e-308", "e309", "e-324", "e400", "e-400", "e5000", "e-5000", "e99999999999", "e-99999999999", "E+400", "e+0"]);
        let digits = *rng.pick(&["1", "5", "9", "123456789", "00001", "10"]);
        let sign = if rng.chance(1, 4) { "-" } else { "" };
        match rng.below(5) {
            0 => format!("{sign}0.{}{digits}{exp}", "0".repeat(zeros)),
            1 => format!("{sign}{digits}{}{exp}", "0".repeat(zeros)),
            2 => format!("{sign}{}.{digits}{exp}", "9".repeat(zeros.max(1))),
            3 => format!("{sign}0.{}{exp}", "0".repeat(zeros.max(1))),
            _ => format!("{sign}{digits}.{}{digits}{exp}", "0".repeat(zeros)),
        }
    }

    pub fn num(&mut self) -> String {
        if self.extreme_pct > 0 && self.rng.below(200) < self.extreme_pct {
            return Self::long_literal(self.rng);
        }
        if self.extreme_pct > 0 && self.rng.below(100) < self.extreme_pct {
            (*self.rng.pick(EXTREME)).to_string()
        } else {
            (*self.rng.pick(SMALL)).to_string()
        }
    }

    fn small(&mut self) -> String {
        (*self.rng.pick(&["0", "1", "2", "3", "5", "12", "20"])).to_string()
    }

    fn string(&mut self) -> String {
        (*self.rng.pick(STRS)).to_string()
    }

    fn field(&mut self) -> String {
        (*self.rng.pick(FIELDS)).to_string()
    }

    fn path(&mut self) -> String {
        let mut p = String::new();
        let n = self.rng.urange(1, 3);
        for i in 0..n {
            match self.rng.below(9) {
                0 | 1 => {
                    p.push('.');
                    p.push_str(&self.field());
                }
                2 => {
                    if i == 0 {
                        p.push('.');
                    }
                    p.push_str(&format!("[{}]", self.num()));
                }
                3 => {
                    if i == 0 {
                        p.push('.');
                    }
                    let a = self.num();
                    let b = self.num();
                    match self.rng.below(3) {
                        0 => p.push_str(&format!("[{a}:{b}]")),
                        1 => p.push_str(&format!("[{a}:]")),
                        _ => p.push_str(&format!("[:{b}]")),
                    }
                }
                4 => {
                    if i == 0 {
                        p.push('.');
                    }
                    p.push_str("[]");
                }
                5 => {
                    if i == 0 {
                        p.push('.');
                    }
                    p.push_str(&format!("[{}]", self.string()));
                }
                6 => {
                    if i == 0 {
                        p.push('.');
                    }
                    p.push_str("[]?");
                }
                _ => {
                    if i == 0 {
                        p.push('.');
                    }
                }
            }
        }
        if p.is_empty() {
            p.push('.');
        }
        if self.rng.chance(1, 8) {
            p.push('?');
        }
        p
    }

    /// A generator with at most a handful of outputs.
    fn bounded_gen(&mut self) -> String {
        // a few outputs and then a raise: the shape that makes `Partial` results
        if self.rng.chance(1, 5) {
            let a = self.atom();
            return match self.rng.below(6) {
                0 => format!("({a}, error(\"x\"))"),
                1 => format!("({a}, {}, error)", self.atom()),
                2 => format!("(1, 2, error({}))", self.atom()),
                3 => match self.labels.last().cloned() {
                    Some(l) => format!("({a}, break {l})"),
                    None => format!("({a}, error(null))"),
                },
                4 => {
                    // stream events followed by a raise (for fromstream / truncate_stream)
                    let ev = *self.rng.pick(&["[[0],1]", "[[0]]", "[[\"a\"],1]", "[[0,0],1]", "[[0,0]]", "[[],3]"]);
                    match self.rng.below(3) {
                        0 => format!("({ev}, error(\"x\"))"),
                        1 => format!("({ev}, [[0]], error)"),
                        _ => format!("([[0,0],1], {ev}, error(null))"),
                    }
                }
                _ => "(error(\"only\"))".into(),
            };
        }
        match self.rng.below(6) {
            0 => format!("range({})", self.small()),
            1 => format!("range({};{})", self.small(), self.small()),
            2 => format!("range(0;{};{})", self.small(), (*self.rng.pick(&["1", "2", "3", "7", "1e18", "1e300", "infinite", "9223372036854775807"]))),
            3 => "(1,2,3)".into(),
            4 => ".[]?".into(),
            _ => format!("({}, {})", self.atom(), self.atom()),
        }
    }

    fn atom(&mut self) -> String {
        match self.rng.below(10) {
            0 | 1 => self.num(),
            2 => self.string(),
            3 => (*self.rng.pick(&["null", "true", "false"])).to_string(),
            4 | 5 => self.path(),
            6 => {
                if let Some(v) = self.vars.last().cloned() {
                    if self.rng.chance(1, 2) {
                        return v;
                    }
                }
                ".".into()
            }
            7 => {
                if self.rng.chance(1, 2) {
                    "[]".into()
                } else {
                    (*self.rng.pick(LITERALS)).to_string()
                }
            }
            8 => "{}".into(),
            _ => (*self.rng.pick(ZERO_ARG)).to_string(),
        }
    }

    pub fn expr(&mut self, depth: u32) -> String {
        self.budget -= 1;
        if self.budget <= 0 || depth > 7 {
            return self.atom();
        }
        let d = depth + 1;
        match self.rng.below(50) {
            0..=4 => self.atom(),
            5..=7 => format!("{} | {}", self.expr(d), self.expr(d)),
            8 => format!("{}, {}", self.expr(d), self.expr(d)),
            9 | 10 => {
                let op = *self.rng.pick(&["+", "-", "*", "*", "*", "/", "%", "==", "!=", "<", "<=", ">", ">=", "and", "or", "//"]);
                format!("({} {} {})", self.expr(d), op, self.expr(d))
            }
            11 => {
                // string repetition and friends: the operand-sized allocation
                let s = self.string();
                let n = self.num();
                match self.rng.below(4) {
                    0 => format!("({s} * {n})"),
                    1 => format!("({n} * {s})"),
                    2 => format!("({} | tostring) * {n}", self.expr(d)),
                    _ => format!("({s} * {n} | length)"),
                }
            }
            12 => format!("[{}]", self.expr(d)),
            13 => {
                let n = self.rng.urange(0, 3);
                let mut o = String::from("{");
                for i in 0..n {
                    if i > 0 {
                        o.push_str(", ");
                    }
                    match self.rng.below(4) {
                        0 => o.push_str(&format!("{}: {}", self.field(), self.expr(d))),
                        1 => o.push_str(&format!("{}: {}", self.string(), self.expr(d))),
                        2 => o.push_str(&format!("({}): {}", self.expr(d), self.expr(d))),
                        _ => o.push_str(&self.field()),
                    }
                }
                o.push('}');
                o
            }
            14 => format!("if {} then {} else {} end", self.expr(d), self.expr(d), self.expr(d)),
            15 => format!("try ({}) catch ({})", self.expr(d), self.expr(d)),
            16 => format!("({})?", self.expr(d)),
            17 => {
                let v = self.fresh_var();
                let g = self.bounded_gen();
                let init = self.expr(d);
                self.vars.push(v.clone());
                let upd = self.expr(d);
                self.vars.pop();
                format!("reduce {g} as {v} ({init}; {upd})")
            }
            18 => {
                let v = self.fresh_var();
                let g = self.bounded_gen();
                let init = self.expr(d);
                self.vars.push(v.clone());
                let upd = self.expr(d);
                let ext = self.expr(d);
                self.vars.pop();
                if self.rng.chance(1, 2) {
                    format!("foreach {g} as {v} ({init}; {upd}; {ext})")
                } else {
                    format!("foreach {g} as {v} ({init}; {upd})")
                }
            }
            19 => {
                let l = format!("$l{}", self.fresh);
                self.fresh += 1;
                self.labels.push(l.clone());
                let body = self.expr(d);
                self.labels.pop();
                format!("label {l} | {body}")
            }
            20 => {
                if let Some(l) = self.labels.last().cloned() {
                    format!("break {l}")
                } else {
                    self.atom()
                }
            }
            21 => {
                let v = self.fresh_var();
                let e = self.expr(d);
                self.vars.push(v.clone());
                let body = self.expr(d);
                self.vars.pop();
                match self.rng.below(4) {
                    0 => format!("{e} as [{v}] | {body}"),
                    1 => format!("{e} as {{a: {v}}} | {body}"),
                    _ => format!("{e} as {v} | {body}"),
                }
            }
            22 | 23 => {
                // builtins that size an allocation or an index from an operand
                let n = self.num();
                let m = self.num();
                let g = self.bounded_gen();
                match self.rng.below(30) {
                    0 => format!("limit({n}; {g})"),
                    1 => format!("first({g})"),
                    2 => format!("nth({n}; {g})"),
                    3 => format!("nth({n})"),
                    4 => format!("flatten({n})"),
                    5 => {
                        // small n only unless extreme: k^n outputs is legitimate heavy work, not a fault
                        let n = if self.extreme_pct > 0 && self.rng.chance(1, 2) {
                            (*self.rng.pick(EXTREME)).to_string()
                        } else {
                            (*self.rng.pick(&["0", "1", "2", "3"])).to_string()
                        };
                        format!("combinations({n})")
                    }
                    6 => format!("setpath([{n}]; {})", self.expr(d)),
                    7 => format!("setpath([{}, {n}]; {m})", self.string()),
                    8 => format!("delpaths([[{n}]])"),
                    9 => format!("getpath([{n}, {m}])"),
                    10 => format!("pow({n}; {m})"),
                    11 => format!("[{n}] | implode"),
                    12 => format!("indices({})", self.atom()),
                    13 => format!("index({})", self.string()),
                    14 => format!("splits({})", self.string()),
                    15 => format!("ltrimstr({})", self.atom()),
                    16 => format!("skip({n}; {g})"),
                    17 => format!("tojson | . * {n}"),
                    18 => format!("[limit({n}; {g})]"),
                    19 => format!("({n} | tostring)"),
                    20 => format!("({n} | todate)"),
                    21 => format!("({n} | gmtime)"),
                    22 => format!("({n} | strftime({}))", self.string()),
                    23 => format!("({n} | floor | tostring)"),
                    24 => format!("[{n}, {m}] | sort"),
                    25 => format!("({n} | @text)"),
                    26 => format!("atan2({n}; {m})"),
                    27 => format!("[range({}; {}; {})]", self.small(), self.small(), (*self.rng.pick(&["1e300", "infinite", "1e18", "9223372036854775807", "0.5", "1"]))),
                    28 => format!("bsearch({n})"),
                    _ => format!("({n} % {m})"),
                }
            }
            24 | 25 => {
                // assignments
                let p = self.path();
                let e = self.expr(d);
                let op = *self.rng.pick(&["=", "|=", "+=", "-=", "*=", "/=", "%=", "//="]);
                match self.rng.below(5) {
                    0 => format!("del({p})"),
                    1 => format!("({p} {op} {e})"),
                    2 => format!("(.[{}] {op} {e})", self.num()),
                    3 => format!("(.[{}:{}] = {e})", self.num(), self.num()),
                    _ => format!("del(.[{}:{}])", self.num(), self.num()),
                }
            }
            26 | 27 => {
                // one-argument builtins
                let f = *self.rng.pick(&[
                    "select", "map", "map_values", "sort_by", "group_by", "unique_by", "min_by", "max_by", "with_entries", "has",
                    "in", "contains", "inside", "startswith", "endswith", "ltrimstr", "rtrimstr", "split", "join", "test", "match",
                    "capture", "scan", "splits", "index", "rindex", "indices", "flatten", "paths", "path", "pick", "any", "all",
                    "error", "halt_error", "isempty", "walk", "IN", "INDEX", "tojson |", "getpath", "delpaths", "strftime", "strptime",
                    "add", "first", "last", "truncate_stream", "fromstream", "isvalid", "limit(2;", "debug", "input_line_number |",
                    "ascii", "implode |", "@json", "to_entries |", "env |", "splits", "ltrimstr", "tostream |", "fromjson |", "abs |",
                ]);
                let a = self.expr(d);
                if f.ends_with('|') {
                    format!("({f} {a})")
                } else if f.ends_with(';') {
                    format!("{f} {a})")
                } else if f == "path" || f == "pick" || f == "paths" {
                    format!("{f}({})", self.path())
                } else {
                    format!("{f}({a})")
                }
            }
            28 => {
                // two-argument builtins
                let f = *self.rng.pick(&["sub", "gsub", "split", "test", "range", "limit", "setpath", "pow", "atan2", "skip", "nth"]);
                let (a, b) = match f {
                    "range" => (self.small(), self.small()),
                    "limit" | "skip" | "nth" => (self.num(), self.bounded_gen()),
                    "sub" | "gsub" | "split" | "test" => (self.string(), self.string()),
                    "setpath" => (format!("[{}]", self.atom()), self.expr(d)),
                    _ => (self.num(), self.num()),
                };
                format!("{f}({a}; {b})")
            }
            29 => {
                // string interpolation / format strings
                let e = self.expr(d);
                match self.rng.below(4) {
                    0 => format!("\"a\\({e})é\""),
                    1 => format!("@base64 \"x\\({e})\""),
                    2 => format!("@json \"\\({e})\""),
                    _ => format!("@sh \"\\({e}) \\({})\"", self.atom()),
                }
            }
            30 if self.allow_def => {
                // non-recursive definitions (body generated before the name exists)
                let body = self.expr(d);
                let f = format!("f{}", self.fresh);
                self.fresh += 1;
                let rest = self.expr(d);
                match self.rng.below(3) {
                    0 => format!("def {f}: {body}; {rest} | {f}"),
                    1 => format!("def {f}(g): g | {body}; {f}({rest})"),
                    _ => format!("def {f}($x): $x | {body}; {f}({rest})"),
                }
            }
            31 => {
                if self.rng.chance(1, 2) {
                    return format!("-({})", self.expr(d));
                }
                // broken-down time arrays with odd fields, and the date/time family
                let f = |g: &mut Self| -> String {
                    if g.rng.chance(1, 3) {
                        g.num()
                    } else {
                        (*g.rng.pick(&["2024", "0", "1", "11", "12", "15", "31", "23", "59", "60", "-1", "-2", "6", "7", "365", "1.5"])).to_string()
                    }
                };
                let arr = format!("[{},{},{},{},{},{},{},{}]", f(self), f(self), f(self), f(self), f(self), f(self), f(self), f(self));
                let fmt = *self.rng.pick(&[
                    "\"%a %b\"", "\"%A, %B %d, %Y\"", "\"%c\"", "\"%j %U %w\"", "\"%Z %z\"", "\"%e %H:%M:%S\"", "\"%s\"", "\"%%\"", "\"%Y-%m-%dT%H:%M:%SZ\"",
                    "\"%h %p %I\"", "\"%G %V %u\"", "\"%\"", "\"%é\"", "\"%y %C %D %F %T\"",
                ]);
                let st = self.structured();
                let st2 = self.structured();
                let two = |g: &mut Self, pool: &[&str]| -> String { (*g.rng.pick(pool)).to_string() };
                let date = format!(
                    "\"{}-{}-{}{}{}:{}:{}{}\"",
                    two(self, &["2024", "0000", "9999", "1969", "99999", "-001"]),
                    two(self, &["00", "01", "02", "12", "13", "99", "1", "é1"]),
                    two(self, &["00", "01", "29", "30", "31", "32", "99", "1"]),
                    two(self, &["T", " ", "t", ""]),
                    two(self, &["00", "12", "23", "24", "99"]),
                    two(self, &["00", "30", "59", "60", "99"]),
                    two(self, &["00", "59", "60", "61", "99"]),
                    two(self, &["Z", "", "+01:00", "-0530", " UTC", "z"]),
                );
                let dfmt = two(self, &["\"%F\"", "\"%FT%TZ\"", "\"%F %T\"", "\"%Y-%m-%dT%H:%M:%SZ\"", "\"%D\"", "\"%F%z\"", "\"%Y-%m-%d %H:%M:%S %Z\"", "\"%G-%V-%u\"", "\"%Y-%j\"", "\"%y%m%d\"", "\"%s\"", "\"%c\"", "\"%x %X\"", "\"%R\"", "\"%e %b %Y\""]);
                match self.rng.below(16) {
                    8 => {
                        let a = self.fixed_width_soup();
                        let b = self.fixed_width_soup();
                        let c = self.fixed_width_soup();
                        format!("{} | (tz({a})?, tz({b})?, tz({c})?, tz({st})?)", self.num())
                    }
                    9 => format!("{arr} | tz({st})"),
                    10 => format!("{date} | strptime({dfmt}), (strptime({dfmt}) | mktime, todate)?, fromdate?, fromdateiso8601?, strptime({st2})?"),
                    11 => format!("{st} | fromdate, fromdateiso8601, todate, (tonumber? // 0 | todate)"),
                    12 => format!("{} | strftime({st}), strflocaltime({st})", self.num()),
                    13 => format!("{st} | tonumber, fromjson, @base64d, @urid, ascii_downcase, (explode | length)"),
                    14 => format!("{st} | test({st2}), ltrimstr({st2}), split({st2}), (. / {st2})"),
                    15 => format!("{} | localtime | mktime, (now | tz({st}))", self.num()),
                    0 | 1 => format!("{arr} | strftime({fmt})"),
                    2 => format!("{arr} | mktime"),
                    3 => format!("{arr} | todate"),
                    4 => format!("gmtime | .[{}] = {} | strftime({fmt})", self.rng.below(8), f(self)),
                    5 => format!("{} | strptime({fmt})", self.string()),
                    6 => format!("{arr} | strftime({fmt}) | strptime({fmt}) | mktime"),
                    _ => format!("{} | gmtime | mktime", self.num()),
                }
            }
            32 => {
                if self.rng.chance(1, 2) {
                    return format!("[{}] | {}", self.bounded_gen(), self.expr(d));
                }
                let n = self.num();
                let g = self.bounded_gen();
                let inner = match self.rng.below(10) {
                    0 => format!("skip({n}; {g})"),
                    1 => format!("limit({n}; {g})"),
                    2 => format!("first({g})"),
                    3 => format!("nth({n}; {g})"),
                    4 => g,
                    5 => format!("fromstream({g})"),
                    6 => format!("{} | truncate_stream({g})", *self.rng.pick(&["0", "1", "2"])),
                    7 => format!("({g} | select(. != null))"),
                    8 => format!("[{g}][]"),
                    _ => format!("until(true; {g})"),
                };
                let outer = *self.rng.pick(&[
                    "flatten", "has", "in", "contains", "inside", "startswith", "endswith", "ltrimstr", "rtrimstr", "join", "index", "indices",
                    "test", "split", "getpath", "delpaths", "pick", "omit", "tojson |", "nth", "limit(1;", "strftime", "splits", "error",
                    "setpath([0];", "pow(2;", "implode |", "ascii_downcase |", "with_entries", "map", "select", "sort_by", "group_by", "IN", "isvalid",
                ]);
                if outer.ends_with('|') {
                    format!("({outer} {inner})")
                } else if outer.ends_with(';') {
                    format!("{outer} {inner})")
                } else {
                    format!("{outer}({inner})")
                }
            }
            33 => format!("({}) as $x | [$x, $x] | {}", self.expr(d), self.expr(d)),
            34 => format!("[.[]? | {}]", self.expr(d)),
            35 => format!("{} | tojson | fromjson", self.expr(d)),
            36 => format!("[{}, {}] | transpose", self.expr(d), self.expr(d)),
            37 => format!("{{a: {}}} | to_entries", self.expr(d)),
            38 => format!("({}) | ascii_downcase? // {}", self.expr(d), self.atom()),
            39 => self.shapes_family(),
            40 | 41 => self.strings_family(),
            42 | 43 => self.paths_family(),
            44..=47 => self.census(),
            48 | 49 => self.numeric_family(),
            _ => format!("[{}] | {}", self.expr(d), (*self.rng.pick(ZERO_ARG))),
        }
    }


    /// Four small product spaces, each chosen so that every combination is reached often:
    /// truncated JSON text through `fromjson`/`tonumber`; subject x pattern x flags x regex
    /// builtin; a generator that yields and then raises (or breaks) bound with `as` to a body
    /// that yields nothing, as the argument of a builtin that wants one value; and a
    /// computed index or slice bound that yields no key, on a target that does or does not
    /// resolve, in path position.
    fn shapes_family(&mut self) -> String {
        match self.rng.below(4) {
            0 => {
                let text = *self.rng.pick(&[
                    "[1.5e+10,-2E-3,{\"a\":10e+2}]", "1e+5", "-0.25E-7", "{\"a\":[true,false,null,\"x\\u00e9\"]}", "[1,2E-1]", "\"ab\\\"c\"", "[[[]]]",
                    "{\"k\":-1.0e+0}", "123456789012345678901234567890", "0.1e-999999", "[nan]", "NaN", "-Infinity", " [ 1 , 2 ] ",
                ]);
                let chars: Vec<char> = text.chars().collect();
                let cut = self.rng.urange(0, chars.len());
                let t: String = chars[..cut].iter().collect();
                let lit = t.replace('\\', "\\\\").replace('"', "\\\"");
                let f = *self.rng.pick(&["fromjson", "tonumber", "(fromjson? // \"bad\")", "(tonumber? // 0)", "[fromjson]", "(tonumber | . + 1)", "fromjson | tojson"]);
                format!("\"{lit}\" | {f}")
            }
            1 => {
                let subj = *self.rng.pick(&["\"a\\n\"", "\"\\n\"", "\"a\\nb\\n\"", "\"é\\n\"", "\"\"", "\"aaa\"", "\"a\\n\\n\"", "\"xé😀\"", "\"ab\\r\\n\""]);
                let pat = *self.rng.pick(&[
                    "\"$\"", "\"^\"", "\"a$\"", "\"(?m)$\"", "\"\\\\b\"", "\"\"", "\"a*\"", "\"(a)|b\"", "\"$|a\"", "\"\\\\n$\"", "\"[^a]*$\"", "\"(?<x>a)?$\"", "\"é*$\"", "\".$\"",
                ]);
                let flags = *self.rng.pick(&["null", "\"g\"", "\"n\"", "\"gn\"", "\"x\"", "\"i\"", "\"s\"", "\"l\"", "\"gs\"", "\"ng\"", "\"nx\"", "\"in\"", "\"\""]);
                match self.rng.below(10) {
                    0 => format!("{subj} | test({pat}; {flags})"),
                    1 => format!("{subj} | [match({pat}; {flags})]"),
                    2 => format!("{subj} | capture({pat}; {flags})"),
                    3 => format!("{subj} | [scan({pat}; {flags})]"),
                    4 => format!("{subj} | sub({pat}; \"!\"; {flags})"),
                    5 => format!("{subj} | gsub({pat}; \"!\"; {flags})"),
                    6 => format!("{subj} | [splits({pat}; {flags})]"),
                    7 => format!("{subj} | split({pat}; {flags})"),
                    8 => format!("{subj} | [match([{pat}, {flags}])]"),
                    _ => format!("{subj} | sub({pat}; \"<\\(.x // \"-\")>\"; {flags}), test({pat})"),
                }
            }
            2 => {
                let src = *self.rng.pick(&[
                    "(1, error(\"x\"))", "(1, 2, error)", "(label $o | 1, break $o)", "(.[]?, error(\"y\"))", "([1], error(\"x\"))", "({a: 1}, error(\"x\"))",
                    "(1, (null | halt_error))", "(\"a\", error(null))", "first((1, error(\"x\")), 2)", "(1, 2)", "(1 | error)",
                ]);
                let pat = *self.rng.pick(&["$n", "[$n]", "{a: $n}", "[$n] ?// $n", "{a: $n} ?// [$n]"]);
                let body = *self.rng.pick(&["empty", "select(false)", "if $n then empty else empty end", "($n | select(. == \"zz\"))", "(empty, empty)", "$n", "first(empty)"]);
                let arg = format!("{src} as {pat} | {body}");
                match self.rng.below(16) {
                    0 => format!("limit({arg}; \"a\", \"b\")"),
                    1 => format!("error({arg})"),
                    2 => format!("getpath({arg})"),
                    3 => format!("has({arg})"),
                    4 => format!("ltrimstr({arg})"),
                    5 => format!("startswith({arg})"),
                    6 => format!("join({arg})"),
                    7 => format!("[range({arg})]"),
                    8 => format!("nth({arg})"),
                    9 => format!("test({arg})"),
                    10 => format!("setpath({arg}; 1)"),
                    11 => format!(".[{arg}]"),
                    12 => format!(".[{arg}:]"),
                    13 => format!("[limit(2; {arg})]"),
                    14 => format!("try ({arg}) catch ."),
                    _ => format!("[{arg}], ({arg})"),
                }
            }
            _ => {
                let doc = *self.rng.pick(&["{\"a\":5,\"k\":[],\"b\":[1,2,3]}", "{\"a\":{\"b\":[1,2]},\"k\":[0],\"x\":1}", "[[1,2],5,{\"a\":1}]", "{\"a\":null,\"k\":[]}", "{\"a\":\"str\",\"k\":[1]}"]);
                let target = *self.rng.pick(&[".a.b", ".a", ".b", ".k", ".zz", "\"lit\"", "(try error(\"p\") catch .)", "(try .a.b catch .)", ".[0]", ".a.b.c", "(.a | tostring)", "."]);
                let idx = |g: &mut Self| -> &'static str { *g.rng.pick(&["empty", ".k[]?", ".x?", ".k[]", "0", "(0, 1)", "null", "\"a\"", ".a", "error", "(.zz | .[]?)", "first(empty)", "1"]) };
                let (i1, i2) = (idx(self), idx(self));
                let f = match self.rng.below(8) {
                    0 => format!("{target}[{i1}]"),
                    1 => format!("{target}[{i1}:2]"),
                    2 => format!("{target}[1:{i1}]"),
                    3 => format!("{target}[{i1}:{i2}]"),
                    4 => format!("({target} | .[{i1}])"),
                    5 => format!("(try {target} catch .[{i1}])"),
                    6 => format!("(try {target}[{i1}] catch .[{i2}])"),
                    _ => format!("{target}[{i1}][{i2}:]"),
                };
                match self.rng.below(8) {
                    0 => format!("{doc} | [path({f})]"),
                    1 => format!("{doc} | del({f})"),
                    2 => format!("{doc} | {f} = [\"x\"]"),
                    3 => format!("{doc} | {f} |= 1"),
                    4 => format!("{doc} | {f} += 1"),
                    5 => format!("{doc} | [paths] | length, ({doc} | delpaths([path({f})]))"),
                    6 => format!("{doc} | del({f}, .a)"),
                    _ => format!("{doc} | {f}"),
                }
            }
        }
    }

    /// Strings, regexes, formats and number printing (multi-byte text, odd flags, empty patterns).
    fn strings_family(&mut self) -> String {
        let st = (*self.rng.pick(MB_STRS)).to_string();
        let re = (*self.rng.pick(REGEXES)).to_string();
        let fl = (*self.rng.pick(RE_FLAGS)).to_string();
        let rp = (*self.rng.pick(REPLS)).to_string();
        let st2 = (*self.rng.pick(MB_STRS)).to_string();
        let n = self.num();
        let m = self.num();
        match self.rng.below(40) {
            0 => format!("{st} | test({re}; {fl})"),
            1 => format!("{st} | [match({re}; {fl})]"),
            2 => format!("{st} | [match({re}; \"g\") | .offset, .length, .string]"),
            3 => format!("{st} | capture({re}; {fl})"),
            4 => format!("{st} | [scan({re})]"),
            5 => format!("{st} | [scan({re}; {fl})]"),
            6 => format!("{st} | sub({re}; {rp})"),
            7 => format!("{st} | gsub({re}; {rp})"),
            8 => format!("{st} | gsub({re}; {rp}; {fl})"),
            9 => format!("{st} | [splits({re})]"),
            10 => format!("{st} | [splits({re}; {fl})]"),
            11 => format!("{st} | split({st2})"),
            12 => format!("{st} | split({re}; {fl})"),
            13 => format!("{st} | ltrimstr({st2}), rtrimstr({st2}), startswith({st2}), endswith({st2})"),
            14 => format!("{st} | index({st2}), rindex({st2}), indices({st2})"),
            15 => format!("{st} | .[{n}:{m}]"),
            16 => format!("{st} | .[{n}:], .[:{m}]"),
            17 => format!("{st} | explode | implode"),
            18 => {
                let a = (*self.rng.pick(CODEPOINTS)).to_string();
                let b = (*self.rng.pick(CODEPOINTS)).to_string();
                format!("[{a}, {b}] | implode")
            }
            19 => format!("{st} | ascii_downcase, ascii_upcase, trim, ltrim, rtrim"),
            20 => format!("{st} | @base64 | @base64d"),
            21 => format!("{st} | @base64d"),
            22 => format!("{st} | @uri | @urid"),
            23 => format!("{st} | @urid"),
            24 => format!("{st} | tojson | fromjson"),
            25 => format!("{st} | fromjson"),
            26 => format!("{st} | tonumber"),
            27 => format!("{st} | utf8bytelength, length"),
            28 => format!("[{st}, {st2}, {n}, null, true] | join({st2})"),
            29 => format!("[{st}, {n}, null, [{m}], {{}}] | @csv, @tsv, @html, @sh, @json, @text"),
            30 => format!("[{st}, {n}, null, true] | @csv \"\\(.)\", @sh \"\\(.[0])\", @uri \"\\(.[0])\""),
            31 => format!("{n} | tostring, tojson, @text, @json"),
            32 => format!("[{n}, {m}] | @csv, @tsv, tojson, tostring"),
            33 => format!("\"\\({n})\\({st})\\({m} | tojson)\""),
            34 => format!("{st} | test({st2})"),
            35 => format!("{st} | [match({re}; {fl}) | .captures[]? | .name, .string, .offset]"),
            36 => {
                let a = if self.rng.chance(1, 4) { "null".to_string() } else { self.num() };
                let b = if self.rng.chance(1, 3) { "null".to_string() } else { self.num() };
                let f = *self.rng.pick(&["indices", "index", "rindex", "getpath", "."]);
                match f {
                    "getpath" => format!("{st} | getpath([{{\"start\":{a},\"end\":{b}}}])"),
                    "." => format!("{st} | .[{{\"start\":{a},\"end\":{b}}}]?"),
                    _ => format!("{st} | {f}({{\"start\":{a},\"end\":{b}}})"),
                }
            }
            37 => format!("{st} | [.[{n}:{m}] | explode[]] | implode"),
            38 => {
                // long / deeply nested TEXT handed to the parsers that live behind builtins
                let n = *self.rng.pick(&["300", "383", "384", "385", "1000", "5000", "200000"]);
                match self.rng.below(10) {
                    0 => format!("(\"[\" * {n}) | try fromjson catch \"e\""),
                    1 => format!("(\"[\" * {n} + \"]\" * {n}) | fromjson | tojson | length"),
                    2 => format!("(\"{{\\\"a\\\":\" * {n} + \"1\" + \"}}\" * {n}) | fromjson? | type"),
                    3 => format!("(\"[\" * {n}) | tonumber?"),
                    4 => format!("(\"(\" * {n} + \")\" * {n}) as $re | \"x\" | test($re)?"),
                    5 => format!("(\"%Y \" * {n}) as $f | 0 | strftime($f) | length"),
                    6 => format!("(\"a\" * {n}) | [match(\"a*?\"; \"g\")] | length"),
                    7 => format!("(\"\\\\\" * {n}) | fromjson? // \"x\" | length"),
                    8 => format!("(\"[\" * {n} + \"1\" + \"]\" * {n}) | fromjson? | [paths] | length"),
                    _ => format!("{st} | sub(\"(?<n>.)\"; \"\\(.n)\\(.n)\"; \"g\")"),
                }
            }
            _ => format!("({st} | {}) | {}", self.expr(6), (*self.rng.pick(&["length", "explode", "ascii_downcase", "tojson", "@base64", "utf8bytelength", "tonumber?", "ltrimstr(\"a\")"]))),
        }
    }



    /// A structured string, possibly with one character replaced by / preceded by a
    /// multi-byte one (byte-position arithmetic on "fixed-width" formats).
    fn structured(&mut self) -> String {
        let base = *self.rng.pick(STRUCTURED);
        if self.rng.chance(1, 2) {
            return format!("\"{base}\"");
        }
        // work on the raw text (escapes kept intact: only corrupt plain ASCII alphanumerics/punctuation)
        let chars: Vec<char> = base.chars().collect();
        let idxs: Vec<usize> = (0..chars.len()).filter(|&i| chars[i] != '\\' && chars[i] != '"' && (i == 0 || chars[i - 1] != '\\')).collect();
        if idxs.is_empty() {
            return format!("\"{base}\"");
        }
        let at = idxs[self.rng.usize_below(idxs.len())];
        let mb = *self.rng.pick(&['é', '日', '😀', '١', 'ａ', '\u{a0}']);
        let mut out = String::from("\"");
        for (i, c) in chars.iter().enumerate() {
            if i == at {
                out.push(mb);
                if self.rng.chance(1, 2) {
                    out.push(*c);
                }
            } else {
                out.push(*c);
            }
        }
        out.push('"');
        out
    }

    /// A short sign-prefixed soup over the characters fixed-width parsers look for (digits,
    /// separators) plus multi-byte ones: candidates for numeric UTC offsets, clock fields, ...
    fn fixed_width_soup(&mut self) -> String {
        let mut out = String::from("\"");
        if self.rng.chance(3, 4) {
            out.push(*self.rng.pick(&['+', '-']));
        }
        let n = self.rng.urange(2, 6);
        for _ in 0..n {
            out.push(*self.rng.pick(&['0', '1', '2', '5', '9', ':', ':', 'é', '日', '-', 'T', 'Z', '.', ' ']));
        }
        out.push('"');
        out
    }

    /// One typed value to feed a builtin (as input or as an argument).
    fn typed_value(&mut self) -> String {
        if self.rng.chance(1, 8) {
            return self.structured();
        }
        match self.rng.below(12) {
            0 | 1 => self.num(),
            2 => (*self.rng.pick(MB_STRS)).to_string(),
            3 => self.string(),
            4 => (*self.rng.pick(LITERALS)).to_string(),
            5 => (*self.rng.pick(HETERO)).to_string(),
            6 => (*self.rng.pick(PATH_LITS)).to_string(),
            7 => (*self.rng.pick(REGEXES)).to_string(),
            8 => (*self.rng.pick(&["null", "true", "false", "{}", "[]", "\"\"", "."])).to_string(),
            9 => self.path(),
            10 => self.bounded_gen(),
            _ => (*self.rng.pick(&["[2015,2,5,23,51,47,4,63]", "1425599507", "\"2015-03-05T23:51:47Z\"", "{\"key\":\"a\",\"value\":1}", "[[\"a\",1]]", "{\"a\":{\"b\":1}}"])).to_string(),
        }
    }

    /// Builtin census: every builtin, every arity 0..3, typed inputs and arguments.
    fn census(&mut self) -> String {
        let name = *self.rng.pick(CENSUS);
        let input = self.typed_value();
        let call = match self.rng.weighted(&[35, 35, 22, 8]) {
            0 => name.to_string(),
            1 => format!("{name}({})", self.typed_value()),
            2 => format!("{name}({}; {})", self.typed_value(), self.typed_value()),
            _ => format!("{name}({}; {}; {})", self.typed_value(), self.typed_value(), self.typed_value()),
        };
        match self.rng.below(5) {
            0 => format!("{input} | [{call}]"),
            1 => format!("{input} | try ({call}) catch ."),
            2 => format!("[{input} | {call}] | length"),
            3 => format!("{input} | ({call})?"),
            _ => format!("{input} | {call}"),
        }
    }

    /// `del` with several sibling paths mixing slices and indices over small nested arrays:
    /// deleting through one sibling changes what a later sibling's index means.
    fn multi_del(&mut self) -> String {
        let (arr, len) = *self.rng.pick(&[
            ("[[1,2],[3,4],[5,6]]", 3i64), ("[1,2,3,4,5]", 5), ("[[1],[2],[3],[4]]", 4), ("[[[1]],[[2]]]", 2), ("\"abcdef\"", 6),
            ("[{\"a\":[1,2]},{\"a\":[3]}]", 2), ("[[1,2,3],[4,5,6],[7,8,9],[0]]", 4), ("null", 0), ("{\"a\":[1,2,3]}", 1),
        ]);
        let k = |g: &mut Self| -> String {
            match g.rng.below(10) {
                0 => g.num(),
                1 => format!("{}", len - 1),
                2 => format!("{}", len - 2),
                3 => format!("{len}"),
                4 => "-1".into(),
                _ => format!("{}", g.rng.below(4)),
            }
        };
        let (a, b, c, d2, e2) = (k(self), k(self), k(self), k(self), k(self));
        match self.rng.below(8) {
            0 | 1 => format!("{arr} | del(.[{a}:{b}][{c}], .[{d2}][{e2}])"),
            2 => format!("{arr} | del(.[{a}:{b}], .[{c}])"),
            3 => format!("{arr} | del(.[{c}], .[{a}:{b}])"),
            4 => format!("{arr} | del(.[{a}:{b}][{c}:{d2}], .[{e2}])"),
            5 => format!("{arr} | del(.[{a}][{b}], .[{c}:{d2}][{e2}], .[{a}])"),
            6 => format!("{arr} | delpaths([[{{\"start\":{a},\"end\":{b}}}, {c}], [{d2}, {e2}]])"),
            _ => format!("{arr} | del(.[][{a}:{b}], .[{c}][{d2}])"),
        }
    }


    /// Arithmetic and math functions at the integer / float boundaries.
    fn numeric_family(&mut self) -> String {
        const XS: &[&str] = &[
            "-9223372036854775808", "9223372036854775807", "-9223372036854775807", "-1e19", "1e19", "-infinite", "infinite", "nan", "0", "-0", "1", "-1",
            "4611686018427387904", "-4611686018427387905", "-1e300", "1e300", "9007199254740993", "0.5", "-0.5", "1e-300", "3037000500", "2147483648", "1e1000",
        ];
        const YS: &[&str] = &[
            "-1", "-1.5", "-1.25", "1.5", "0", "0.5", "-0.5", "2", "-2", "1e-300", "infinite", "-infinite", "-9223372036854775808", "9223372036854775807", "nan", "0.0", "3",
            "-0.0", "1e19", "-1e19", "7", "64", "63", "-63", "1024", "1e300",
        ];
        let lit;
        let x = if self.rng.chance(1, 5) {
            lit = Self::long_literal(self.rng);
            lit.as_str()
        } else {
            *self.rng.pick(XS)
        };
        let y = *self.rng.pick(YS);
        let x2 = *self.rng.pick(XS);
        match self.rng.below(22) {
            0..=4 => {
                let op = *self.rng.pick(&["%", "%", "/", "*", "+", "-"]);
                format!("({x} {op} {y}), ([{x}, {y}] | (.[0] {op} .[1]))")
            }
            5 => format!("{x} | floor, ceil, round, trunc, fabs, abs, sqrt, -(.)"),
            6 => format!("{x} | tostring, tojson, @text, @json, (tojson | fromjson)"),
            7 => format!("{x} | pow(.; {y}), pow({y}; .), log, log2, log10, exp, exp2, exp10"),
            8 => format!("{x} | significand?, logb?, gamma?, lgamma?, frexp?, modf?, cbrt?, nearbyint?"),
            9 => format!("{x} | ldexp(.; {y})?, scalb(.; {y})?, scalbln(.; {y})?, drem(.; {y})?, atan2(.; {y})"),
            10 => format!("[{x}, {y}, {x2}] | sort, min, max, unique, add, (map(. * 2) | add), (.[0] < .[1]), (.[0] == .[2])"),
            11 => format!("[limit({x}; 1, 2, 3)], [first(range(3))], [nth({y}; 1, 2, 3)?]"),
            12 => format!("[1,2,3,4] | .[{x}:{y}], .[{y}:{x}], (.[{x}]?), (.[{y}]?)"),
            13 => format!("[{x}] | implode?, ([{y}] | implode?)"),
            14 => format!("{x} | todate?, gmtime?, (gmtime | mktime)?, localtime?, strftime(\"%Y %j %s\")?"),
            15 => format!("{x} | . as $n | [$n, $n + 1, $n - 1, $n * $n, ($n / 3), ($n % 7)]"),
            16 => format!("({x} | tostring | tonumber) == {x}, ({x} | tojson | fromjson | type)"),
            17 => format!("\"abcdef\" | .[{x}:{y}], .[{y}:], .[:{x}]"),
            18 => format!("[range(0; 3)] | .[{x}] = 1"),
            19 => format!("{{}} | .a[{y}] = {x}"),
            20 => format!("[{x}, {y}] | @csv, @tsv, @sh, @html, join(\",\")"),
            _ => format!("({x} | isinfinite, isnan, isnormal, isvalid(. + 1)), ({x} == {x2}), ({x} < {y})"),
        }
    }

    /// Paths, assignment, destructuring and control flow.
    fn paths_family(&mut self) -> String {
        if self.rng.chance(1, 6) {
            return self.multi_del();
        }
        let pl = (*self.rng.pick(PATH_LITS)).to_string();
        let pl2 = (*self.rng.pick(PATH_LITS)).to_string();
        let lit = (*self.rng.pick(LITERALS)).to_string();
        let het = (*self.rng.pick(HETERO)).to_string();
        let p = self.path();
        let p2 = self.path();
        let n = self.num();
        let e = self.atom();
        let g = self.bounded_gen();
        match self.rng.below(46) {
            0 => format!("{lit} | [path({p})]"),
            1 => format!("{lit} | [paths]"),
            2 => format!("{lit} | [paths(type == \"number\")]"),
            3 => format!("{lit} | getpath({pl})"),
            4 => format!("{lit} | delpaths([{pl}, {pl2}])"),
            5 => format!("{lit} | del({p}, {p2})"),
            6 => format!("{lit} | setpath({pl}; {e})"),
            7 => format!("{lit} | to_entries, with_entries(.value |= {e})"),
            8 => format!("{lit} | ({p} |= {e})"),
            9 => format!("{lit} | ({p} += {e})"),
            10 => format!("{lit} | [path(..)] | length"),
            11 => format!("{lit} | [path(first({p}, {p2}))]"),
            12 => format!("{lit} | [path(if . then {p} else {p2} end)]"),
            13 => format!("{lit} | [path({p} // {p2})]"),
            14 => format!("{lit} | [path(getpath({pl}))]"),
            15 => format!("{lit} | [path(empty)], [path(error)?]"),
            16 => format!("{lit} | (.[{n}:] |= {e})"),
            17 => self.multi_del(),
            18 => format!("{lit} | . as [$a, {{b: $c}}] | [$a, $c]"),
            19 => format!("{lit} | . as {{a: [$x, $y]}} | [$x, $y]"),
            20 => format!("{lit} | . as [$a] ?// {{a: $a}} ?// $a | [$a]"),
            21 => format!("{lit} | [.[]? as [$a] ?// $a | $a]"),
            22 => format!("{lit} | . as {{$a, b: [$c]}} | [$a, $c]"),
            23 => format!("{lit} | . as {{({e}): $x}} | $x"),
            24 => format!("reduce {g} as $x ({e}; (., 1))"),
            25 => format!("reduce {g} as $x ({e}; empty)"),
            26 => format!("[foreach {g} as $x ({e}; empty; .)]"),
            27 => format!("[foreach {g} as $x ({e}; (., .); [., $x])]"),
            28 => format!("reduce empty as $x (0; .), [foreach (1,2) as [$a] (0; . + $a)]"),
            29 => "[label $a | label $b | (1, break $a, 2)], [label $a | (1, break $a)], first(label $a | break $a)".into(),
            30 => format!("label $a | try (break $a) catch ., [label $b | {g} | if . == 2 then break $b else . end]"),
            31 => format!("try error(null) catch ., try error({lit}) catch ., [.[]? | try error(.) catch .]"),
            32 => format!("try ({g}) catch ., [(error({e}))?], (try error(\"\\(.)\") catch .)"),
            33 => format!("{{({g}): {e}}}, {{a: {g}}}, {{({e}): 1}}?"),
            34 => {
                if self.rng.chance(1, 2) {
                    return format!("{het} | sort, group_by(.), unique, min, max, (map(tojson) | sort)");
                }
                let arr = if self.rng.chance(1, 3) {
                    (*self.rng.pick(&["[range(-10;15)]", "[range(25)] | map(. - 12)", "[range(30)] | map(. * 0.5 - 7)", "[range(-3;20)] | map(. / 3)", "[range(22)] | map(if . % 3 == 0 then nan else . end)", "[range(24)] | map(-.)"])).to_string()
                } else {
                    // an unordered array of 21..40 mixed-sign numbers (sorting networks for
                    // short slices and the merge paths for longer ones behave differently)
                    let n = self.rng.urange(21, 40);
                    let mut a = String::from("[");
                    for i in 0..n {
                        if i > 0 {
                            a.push(',');
                        }
                        let v = self.rng.below(101) as i64 - 50;
                        if self.rng.chance(1, 12) {
                            a.push_str("nan");
                        } else if self.rng.chance(1, 10) {
                            a.push_str(&format!("{v}.5"));
                        } else {
                            a.push_str(&v.to_string());
                        }
                    }
                    a.push(']');
                    a
                };
                let key = *self.rng.pick(&["sqrt", "log", "log2", "(. / 0)?", "nan", "if . < 0 then nan else . end", "pow(.; 0.5)", "asin", "acos", "[sqrt]", "{a: sqrt}", "(sqrt, 1)", "tostring", "-.", "1 / ."]);
                let f = *self.rng.pick(&["sort_by", "group_by", "unique_by", "min_by", "max_by"]);
                format!("{arr} | {f}({key}) | length")
            }
            35 => format!("{het} | min_by(.), max_by(.), unique_by(type), sort_by(type), index(nan), (.[0] < .[1]), (.[0] == .[0])"),
            36 => format!("{het} | transpose"),
            37 => format!("{lit} | fromstream(tostream), [tostream] | length"),
            38 => format!("{lit} | fromstream(1 | truncate_stream({lit} | tostream))"),
            39 => format!("fromstream({pl}, {pl2}, {lit})"),
            40 => format!("{lit} | walk(if type == \"array\" then sort else . end), walk({e})"),
            41 => {
                if self.rng.chance(1, 3) {
                    return "env | length, ($ENV | type), input_line_number, $__loc__, ([inputs] | length)".into();
                }
                // diagnostics written to fd 2 from inside the evaluators (fd 2 may refuse the write)
                let sink = *self.rng.pick(&[
                    "stderr", "debug", "debug(\"m\")", "debug(., 1)", "halt_error", "halt_error(3)", "halt_error(0)", "(stderr | debug)", "[stderr]", "(debug | stderr)?",
                    "input_line_number", "(stderr, halt_error)", "debug(\"\\(.)\")", "(try error(.) catch stderr)",
                ]);
                match self.rng.below(4) {
                    0 => format!("{lit} | {sink}"),
                    1 => format!("{het} | .[] | {sink}"),
                    2 => format!("{lit} | {sink} | {e}"),
                    _ => format!("({lit}, {e}) | {sink}, 1"),
                }
            }
            42 => format!("[limit(0; {g})], first(empty), [nth(0; empty)], (0 | until(. >= 3; . + 1))"),
            43 => {
                if self.rng.chance(1, 3) {
                    return format!("{lit} | [.. | numbers], [.. | strings], [recurse(.[]?; . != null)] | length");
                }
                // path-context builtins (key / parent / path) inside collectors and interpolations,
                // over documents whose fields are null, missing or nested
                let doc = *self.rng.pick(&[
                    "{\"a\":null}", "{\"a\":{\"b\":null}}", "[null,{\"a\":null}]", "{\"a\":[null]}", "null", "{\"a\":{\"b\":1}}", "{\"a\":{}}", "[[1,[2]],{\"a\":[3]}]",
                    "{\"a\":{\"b\":{\"c\":null}},\"k\":[null,null]}",
                ]);
                let step = |g: &mut Self| -> &'static str { *g.rng.pick(&[".a", ".b", ".[0]", ".[]", ".a.b", ".c", ".k", ".[1]", ".a?", ".[]?", "..", ".a[0]"]) };
                let (p1, p2, p3) = (step(self), step(self), step(self));
                let ctx = *self.rng.pick(&["key", "parent", "parent(1)", "parent(2)", "path", "(path | length)", "(parent | key)", "[key, (parent | type)]"]);
                match self.rng.below(8) {
                    0 => format!("{doc} | {p1} | [{p2} | {ctx}]"),
                    1 => format!("{doc} | {p1} | \"\\({p2})-\\({ctx})\""),
                    2 => format!("{doc} | [{p1} | {p2} | {ctx}]"),
                    3 => format!("{doc} | {p1} | {{({p2} | {ctx} | tostring): {p3}}}"),
                    4 => format!("{doc} | [.. | {ctx}?]"),
                    5 => format!("{doc} | {p1} | [({p2}, {p3}) | {ctx}]"),
                    6 => format!("{doc} | {p1} | \"\\({p2} | {ctx})\", [{p3} | {ctx}]"),
                    _ => format!("{doc} | [paths] | map(length), ({doc} | {p1} | {p2} | {ctx})"),
                }
            }
            44 => format!("{lit} | pick({p}), (to_entries | from_entries), (keys, values | length)"),
            _ => format!("{het} | [.[] | tojson], (. - [nan]), (. + .), (. | add), any, all, flatten, (map(length?) | add)"),
        }
    }

    fn fresh_var(&mut self) -> String {
        let v = format!("$v{}", self.fresh);
        self.fresh += 1;
        v
    }
}

const SOUP: &[&str] = &[
    ".", "..", "[", "]", "{", "}", "(", ")", "|", ",", ":", ";", "?", "//", "+", "-", "*", "/", "%", "=", "|=", "+=", "==", "!=", "<",
    "<=", ">", ">=", "and", "or", "not", "if", "then", "elif", "else", "end", "try", "catch", "reduce", "foreach", "as", "label",
    "break", "import", "include", "$x", "$__loc__", "$ENV", ".a", ".é", ".[0]", ".[]", "\"s\"", "\"é\\(.)\"", "\"\\(", "\"", "'", "@base64",
    "@json", "@", "1", "0", "-1", "1e19", "1e1000", "nan", "infinite", "0x10", "1.", ".5", "1e", "length", "keys", "map", "select",
    "range", "limit", "first", "input", "inputs", "env", "now", "halt", "error", "tojson", "fromjson", "tostring", "implode", "setpath",
    "getpath", "paths", "del", "to_entries", "splits", "sub", "test", "ltrimstr", "日本", "é", "😀", "\u{0}", "\u{7f}", "\u{a0}", "\u{2028}",
    "#c\n", "# c \\", "#\\é\n", "# a\\\n b\n", "#\\", "# é\\😀", "# x \\\\\n", "#\\\r\n1", "#", "# \\\\", "\n", "\t", " ", "..a", "?//", "::", "$", "$$", ".[", ".\"a\"", ".\"é\"", "reduce . as $x (0; .)", "[.[]|.]", "{a:1}", "{(.):.}",
];

pub fn token_soup(rng: &mut Rng) -> String {
    let n = match rng.weighted(&[30, 40, 25, 5]) {
        0 => rng.urange(1, 4),
        1 => rng.urange(4, 12),
        2 => rng.urange(12, 40),
        _ => rng.urange(40, 300),
    };
    let mut s = String::new();
    let sep = rng.chance(2, 3);
    for _ in 0..n {
        s.push_str(*rng.pick(SOUP));
        if sep {
            s.push(' ');
        }
    }
    s
}

/// Character-level mutation of a valid program (tokenizer / parser stress).
pub fn mutate(rng: &mut Rng, prog: &str) -> String {
    let mut chars: Vec<char> = prog.chars().collect();
    if rng.chance(1, 6) {
        // a trailing or embedded comment, with the escapes a comment lexer may special-case
        let tail = *rng.pick(&[" # c", " # c \\", " #\\", " # é\\", " # a\\\n b", " #\\é", " # \\\\", " #\\\r\n.", " # 😀\\😀"]);
        if rng.chance(1, 2) || chars.is_empty() {
            chars.extend(tail.chars());
        } else {
            let at = rng.usize_below(chars.len());
            let mut t: Vec<char> = tail.chars().collect();
            t.push('\n');
            for (k, c) in t.into_iter().enumerate() {
                chars.insert(at + k, c);
            }
        }
    }
    let edits = rng.urange(1, 4);
    for _ in 0..edits {
        if chars.is_empty() {
            chars.push('.');
        }
        let i = rng.usize_below(chars.len());
        match rng.below(6) {
            0 => {
                chars.remove(i);
            }
            1 => {
                let c = *rng.pick(&['é', '日', '😀', '"', '\\', '(', ')', '[', ']', '{', '}', '$', '@', '.', '|', '\u{0}', '\u{feff}', '#']);
                chars.insert(i, c);
            }
            2 => {
                let c = chars[i];
                chars.insert(i, c);
            }
            3 => {
                let j = rng.usize_below(chars.len());
                chars.swap(i, j);
            }
            4 => {
                chars.truncate(i);
            }
            _ => {
                // deep nesting of one bracket kind
                let k = if rng.chance(1, 10) { rng.urange(400, 20000) } else { rng.urange(2, 400) };
                let (o, c) = *rng.pick(&[('[', ']'), ('(', ')'), ('{', '}')]);
                let mut v: Vec<char> = std::iter::repeat(o).take(k).collect();
                v.extend(chars.iter().copied());
                if rng.chance(1, 2) {
                    v.extend(std::iter::repeat(c).take(k));
                }
                chars = v;
            }
        }
    }
    chars.into_iter().collect()
}

/// Small JSON input: all scalar kinds, duplicate keys, non-ASCII, edge numbers,
/// occasionally very deep.
pub fn gen_input(rng: &mut Rng) -> String {
    fn val(rng: &mut Rng, out: &mut String, depth: u32, budget: &mut i32) {
        *budget -= 1;
        let kind = if depth > 5 || *budget <= 0 { rng.below(7) } else { rng.below(11) };
        match kind {
            0 => out.push_str("null"),
            1 => out.push_str(if rng.chance(1, 2) { "true" } else { "false" }),
            2 => out.push_str(&format!("{}", rng.below(1000) as i64 - 100)),
            3 => {
                if rng.chance(1, 10) {
                    // keep it a valid JSON number: no leading zeros in the integer part
                    let lit = ProgGen::long_literal(rng);
                    let (sign, rest) = lit.strip_prefix('-').map_or(("", lit.as_str()), |r| ("-", r));
                    let int_len = rest.find(|c: char| !c.is_ascii_digit()).unwrap_or(rest.len());
                    let (int_part, tail) = rest.split_at(int_len);
                    let trimmed = int_part.trim_start_matches('0');
                    out.push_str(sign);
                    out.push_str(if trimmed.is_empty() { "0" } else { trimmed });
                    out.push_str(&tail.replace("E+", "e+"));
                } else {
                    out.push_str(*rng.pick(&["0", "-0", "1.5", "1e3", "1E-2", "9223372036854775807", "1e400", "-1e400", "0.1", "123456789012345678901234567890", "1.000", "3"]));
                }
            }
            4 | 5 => out.push_str(*rng.pick(&["\"\"", "\"a\"", "\"abc\"", "\"é\"", "\"日本語\"", "\"😀\"", "\"a\\nb\"", "\"\\u00e9\"", "\"1\"", "\"a,b\"", "\"[1]\"", "\"\\ud83d\\ude00\"", "\"x y z\""])),
            6 => out.push_str("[]"),
            7 | 8 => {
                out.push('[');
                let n = rng.urange(0, 5);
                for i in 0..n {
                    if i > 0 {
                        out.push(',');
                    }
                    val(rng, out, depth + 1, budget);
                }
                out.push(']');
            }
            _ => {
                out.push('{');
                let n = rng.urange(0, 4);
                for i in 0..n {
                    if i > 0 {
                        out.push(',');
                    }
                    let k = *rng.pick(&["a", "b", "c", "k", "é", "a", "x1"]);
                    out.push_str(&format!("\"{k}\":"));
                    val(rng, out, depth + 1, budget);
                }
                out.push('}');
            }
        }
    }
    if rng.chance(1, 60) {
        // very deep input
        let d = *rng.pick(&[100usize, 250, 257, 300, 400, 400, 1000, 5000, 20000]);
        let mut s = String::new();
        let obj = rng.chance(1, 2);
        for _ in 0..d {
            s.push_str(if obj { "{\"a\":" } else { "[" });
        }
        s.push('1');
        for _ in 0..d {
            s.push(if obj { '}' } else { ']' });
        }
        return s;
    }
    let mut out = String::new();
    let mut budget = rng.urange(1, 40) as i32;
    val(rng, &mut out, 0, &mut budget);
    out
}

#[derive(Clone, Debug)]
pub struct Trial {
    pub kind: &'static str,
    pub extreme_pct: u64,
    pub mem: usize,
    pub program: String,
    pub input: String,
}

/// Trial `i` of `VERIF_SEED = seed`: a pure function of `(seed, i)`.
pub fn trial(seed: u64, i: u64) -> Trial {
    let mut rng = Rng::new(crate::core::run_seed(seed, "C30", i));
    let extreme_pct = *rng.pick(&[0u64, 10, 50]);
    let mem = *rng.pick(&[256usize << 20, 256 << 20, 512 << 20]);
    let (kind, program) = match rng.weighted(&[70, 15, 15]) {
        0 => {
            let mut g = ProgGen::new(&mut rng, extreme_pct);
            // decided by a side hash, not by the trial's stream: the other 19 trials in 20 keep
            // the programs they had before this family existed
            if crate::core::run_seed(seed, "C30-shapes", i) % 20 == 0 {
                let f = g.shapes_family();
                ("generated", f)
            } else {
                ("generated", g.expr(0))
            }
        }
        1 => ("token_soup", token_soup(&mut rng)),
        _ => {
            let base = {
                let mut g = ProgGen::new(&mut rng, extreme_pct);
                g.allow_def = false;
                g.expr(0)
            };
            ("mutated", mutate(&mut rng, &base))
        }
    };
    let input = gen_input(&mut rng);
    Trial {
        kind,
        extreme_pct,
        mem,
        program,
        input,
    }
}
