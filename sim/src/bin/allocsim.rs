//! allocsim — jq programs evaluated on a simulated machine (C30).
//!
//! The harness binary owns the global allocator (SimAlloc): each trial runs on a
//! fresh 8 MiB-stack thread with `M` bytes of memory and no overcommit. Allocation
//! failure and stack overflow abort the process and cannot be caught in-process,
//! so trials run in child processes of this same binary; the parent learns from a
//! pipe which trial was in flight and what the allocator refused last.
//!
//!   allocsim C30 --tier quick|thorough [--runs N] [--seed S] [--workers W] [--log-hash]
//!   allocsim C30 --replay FILE
//!   allocsim --child --seed S --from A --to B            (internal)
//!   allocsim --one --mem M --program-file P --input-file I   (internal)

use std::collections::BTreeMap;
use std::io::{BufRead, BufReader, Read, Write};
use std::os::unix::process::ExitStatusExt;
use std::panic::{catch_unwind, AssertUnwindSafe};
use std::process::{Command, Stdio};
use std::sync::atomic::{AtomicU64, Ordering};
use std::sync::Mutex;
use std::time::Instant;

use serde::{Deserialize, Serialize};
use serde_json::{json, Value};

use succinctly::jq::eval_generic::{self, GenericResult};
use succinctly::jq::{self, JqSemantics, OwnedValue, QueryResult};
use succinctly::json::JsonIndex;

use succinctly_sim::alloc::{self, SimAlloc};
use succinctly_sim::core::{
    env_seed, fnv1a, install_quiet_panic_hook, load_known, matches_known, normalise, take_last_panic, verif_root, Failure, Fnv,
    KnownFinding, Tier,
};
use succinctly_sim::progen;

#[global_allocator]
static GLOBAL: SimAlloc = SimAlloc;

const STACK: usize = 8 << 20;
const WATCHDOG_S: u64 = 10;
const CHUNK: u64 = 400;

// ------------------------------------------------------------------ child --

fn raw_line(s: &str) {
    // One write per line: atomic on a pipe for lines < PIPE_BUF.
    let mut buf = Vec::with_capacity(s.len() + 1);
    buf.extend_from_slice(s.as_bytes());
    buf.push(b'\n');
    // SAFETY: plain write(2) to fd 1.
    unsafe {
        libc::write(1, buf.as_ptr().cast(), buf.len());
    }
}

fn esc(s: &str) -> String {
    let mut o = String::new();
    for ch in s.chars().take(300) {
        match ch {
            '\n' => o.push_str("\\n"),
            '\r' => o.push_str("\\r"),
            ' ' => o.push('_'),
            c if c.is_control() => o.push('?'),
            c => o.push(c),
        }
    }
    o
}

fn consume_owned(vs: &[OwnedValue], sink: &mut usize) {
    for v in vs {
        *sink += v.to_json().len();
    }
    std::hint::black_box(&*sink);
}

/// Evaluate with the cursor evaluator (`jq::eval`), consuming every output the
/// way a printer would.
fn run_eval_a(expr: &jq::Expr, input: &[u8]) -> &'static str {
    let index = JsonIndex::build(input);
    let cursor = index.root(input);
    let mut sink = 0usize;
    match jq::eval::<Vec<u64>, JqSemantics>(expr, cursor) {
        QueryResult::One(v) => {
            consume_owned(&[eval_generic::to_owned(&v)], &mut sink);
            "ok"
        }
        QueryResult::OneCursor(c) => {
            consume_owned(&[eval_generic::to_owned(&c.value())], &mut sink);
            "ok"
        }
        QueryResult::Many(vs) => {
            for v in &vs {
                consume_owned(&[eval_generic::to_owned(v)], &mut sink);
            }
            "ok"
        }
        QueryResult::None => "ok",
        QueryResult::Error(e) => {
            sink += e.to_string().len();
            std::hint::black_box(sink);
            "jqerr"
        }
        QueryResult::Owned(v) => {
            consume_owned(&[v], &mut sink);
            "ok"
        }
        QueryResult::ManyOwned(vs) => {
            consume_owned(&vs, &mut sink);
            "ok"
        }
        QueryResult::Break(_) => "break",
        QueryResult::Halt(_) => "halt",
        QueryResult::Partial(vs, c) => {
            consume_owned(&vs, &mut sink);
            if let jq::Control::Error(e) = c {
                sink += e.to_string().len();
                std::hint::black_box(sink);
            std::hint::black_box(sink);
            }
            "partial"
        }
    }
}

/// Evaluate with the generic evaluator (`eval_generic::eval_with_cursor`, the one the
/// CLI uses), consuming every output.
fn run_eval_b(expr: &jq::Expr, input: &[u8]) -> &'static str {
    let index = JsonIndex::build(input);
    let cursor = index.root(input);
    let mut sink = 0usize;
    match eval_generic::eval_with_cursor(expr, cursor) {
        GenericResult::One(v) => {
            consume_owned(&[eval_generic::to_owned(&v)], &mut sink);
            "ok"
        }
        GenericResult::OneCursor(c) => {
            consume_owned(&[eval_generic::to_owned_cursor(&c)], &mut sink);
            "ok"
        }
        GenericResult::Many(vs) => {
            for v in &vs {
                consume_owned(&[eval_generic::to_owned(v)], &mut sink);
            }
            "ok"
        }
        GenericResult::ManyCursor(cs) => {
            for c in &cs {
                consume_owned(&[eval_generic::to_owned_cursor(c)], &mut sink);
            }
            "ok"
        }
        GenericResult::LazyKeys { .. } | GenericResult::LazyIndexRange(_) => "ok",
        GenericResult::LazySeq(seq) => match seq.materialize_atomic() {
            Ok(v) => {
                consume_owned(&[v], &mut sink);
                "ok"
            }
            Err(jq::Control::Error(e)) => {
                sink += e.to_string().len();
                std::hint::black_box(sink);
            std::hint::black_box(sink);
                "jqerr"
            }
            Err(_) => "control",
        },
        GenericResult::None => "ok",
        GenericResult::Error(e) => {
            sink += e.to_string().len();
            std::hint::black_box(sink);
            "jqerr"
        }
        GenericResult::Owned(v) => {
            consume_owned(&[v], &mut sink);
            "ok"
        }
        GenericResult::ManyOwned(vs) => {
            consume_owned(&vs, &mut sink);
            "ok"
        }
        GenericResult::Break(_) => "break",
        GenericResult::Halt(_) => "halt",
        GenericResult::Partial(vs, c) => {
            consume_owned(&vs, &mut sink);
            if let jq::Control::Error(e) = c {
                sink += e.to_string().len();
                std::hint::black_box(sink);
            std::hint::black_box(sink);
            }
            "partial"
        }
    }
}

/// One trial on a fresh thread (fresh thread-locals, 8 MiB stack, `mem` bytes).
/// Returns the END line payload.
fn run_trial_thread(trial: u64, program: String, input: String, mem: usize, b_first: bool) -> String {
    let handle = std::thread::Builder::new()
        .stack_size(STACK)
        .spawn(move || {
            alloc::begin_trial(trial, mem);
            let res = catch_unwind(AssertUnwindSafe(|| {
                // the CLI's entry point parses a full program (module directives allowed)
                if let Err(e) = jq::parse_program(&program) {
                    let _ = e.to_string();
                }
                let expr = match jq::parse(&program) {
                    Ok(e) => e,
                    Err(e) => {
                        let _ = e.to_string();
                        return "parse_error".to_string();
                    }
                };
                let (x, y) = if b_first {
                    let b = run_eval_b(&expr, input.as_bytes());
                    let a = run_eval_a(&expr, input.as_bytes());
                    (a, b)
                } else {
                    let a = run_eval_a(&expr, input.as_bytes());
                    let b = run_eval_b(&expr, input.as_bytes());
                    (a, b)
                };
                format!("{x}/{y}")
            }));
            // drop everything the trial allocated before reading the ledger
            let acct = alloc::end_trial();
            let (class, msg) = match res {
                Ok(c) => (c, String::new()),
                Err(_) => {
                    let m = take_last_panic().unwrap_or_else(|| "<unknown panic>".into());
                    ("PANIC".to_string(), m)
                }
            };
            format!(
                "{} {} {} {} {} {}",
                class,
                acct.refusals,
                acct.class_a,
                acct.peak,
                acct.allocs,
                esc(&msg)
            )
        });
    match handle {
        Ok(h) => match h.join() {
            Ok(s) => s,
            Err(_) => "PANIC 0 0 0 0 thread_join_failed".to_string(),
        },
        Err(_) => "HARNESS 0 0 0 0 cannot_spawn_thread".to_string(),
    }
}

static CURRENT_TRIAL: AtomicU64 = AtomicU64::new(u64::MAX);
static CURRENT_START_MS: AtomicU64 = AtomicU64::new(0);

fn child_common_setup() {
    install_quiet_panic_hook();
    alloc::REFUSE_FD.store(1, Ordering::Relaxed);
    // OS-level backstop so nothing can take the box down.
    // SAFETY: setrlimit with a valid struct.
    unsafe {
        let lim = libc::rlimit {
            rlim_cur: 8 << 30,
            rlim_max: 8 << 30,
        };
        libc::setrlimit(libc::RLIMIT_AS, &lim);
        let core = libc::rlimit {
            rlim_cur: 0,
            rlim_max: 0,
        };
        libc::setrlimit(libc::RLIMIT_CORE, &core);
    }
    // Watchdog: real time is used only to DISCARD a trial, never to flag one.
    let t0 = Instant::now();
    std::thread::spawn(move || loop {
        std::thread::sleep(std::time::Duration::from_millis(200));
        let t = CURRENT_TRIAL.load(Ordering::Relaxed);
        if t == u64::MAX {
            continue;
        }
        let started = CURRENT_START_MS.load(Ordering::Relaxed);
        let now = t0.elapsed().as_millis() as u64;
        if now.saturating_sub(started) > WATCHDOG_S * 1000 && CURRENT_TRIAL.load(Ordering::Relaxed) == t {
            raw_line(&format!("T {t}"));
            // SAFETY: immediate process exit.
            unsafe { libc::_exit(3) };
        }
    });
    CHILD_T0.get_or_init(|| t0);
}

static CHILD_T0: std::sync::OnceLock<Instant> = std::sync::OnceLock::new();

fn mark_start(trial: u64) {
    let now = CHILD_T0.get().map_or(0, |t| t.elapsed().as_millis() as u64);
    CURRENT_START_MS.store(now, Ordering::Relaxed);
    CURRENT_TRIAL.store(trial, Ordering::Relaxed);
}

fn child_range(seed: u64, from: u64, to: u64) -> i32 {
    child_common_setup();
    for i in from..to {
        let t = progen::trial(seed, i);
        raw_line(&format!("S {i}"));
        mark_start(i);
        let end = run_trial_thread(i, t.program, t.input, t.mem, i % 2 == 1);
        CURRENT_TRIAL.store(u64::MAX, Ordering::Relaxed);
        raw_line(&format!("E {i} {end}"));
    }
    0
}

fn child_one(mem: usize, program: String, input: String, b_first: bool, site: bool) -> i32 {
    child_common_setup();
    alloc::SITE_ENABLED.store(site, Ordering::Relaxed);
    raw_line("S 0");
    mark_start(0);
    let end = run_trial_thread(0, program, input, mem, b_first);
    CURRENT_TRIAL.store(u64::MAX, Ordering::Relaxed);
    raw_line(&format!("E 0 {end}"));
    0
}

// ----------------------------------------------------------------- parent --

#[derive(Clone, Debug, Default)]
struct Refusal {
    size: u64,
    live: u64,
    peak: u64,
    class_a: bool,
    /// innermost `succinctly::` frames of the refused request (class A only)
    site: String,
}

#[derive(Clone, Debug)]
enum Outcome {
    /// Trial ended inside the child: class string, refusals, class A refusals, peak, panic message.
    Ended { class: String, refusals: u32, class_a: u32, peak: u64, msg: String },
    /// The child died while this trial was in flight.
    Died { signal: Option<i32>, code: Option<i32>, last_refusal: Option<Refusal>, stderr_tail: String },
    /// Watchdog expiry (discarded, never flagged).
    TimedOut,
}

struct ChildRun {
    outcomes: Vec<(u64, Outcome)>,
    /// first trial index not executed (where to resume)
    next: u64,
}

/// The environment a child sees is part of the simulated machine. Besides the usual
/// variables it contains one whose value is not valid Unicode (a legacy-locale leftover):
/// the program has no say in that, and `env` / `$ENV` must still answer.
fn hostile_env_value() -> std::ffi::OsString {
    use std::os::unix::ffi::OsStringExt;
    std::ffi::OsString::from_vec(b"caf\xe9 \xff\xfe".to_vec())
}

static CHILDREN_SPAWNED: AtomicU64 = AtomicU64::new(0);

/// `TZ` is part of the simulated environment too (`localtime`, `strflocaltime`, `mktime`
/// read it): one value per chunk of trials, a function of the chunk's first trial index.
const TZ_VALUES: &[&str] = &[
    "UTC", "EST5EDT", "PST8PDT", "<+03>-3", "é+1:30é", "+99999999999999999999", "", "A-99999999999:99999999", "CET-1CEST,M3.5.0,M10.5.0/3", "+1é:2", "Z", "-25:61",
];

fn tz_for_trial(i: u64) -> &'static str {
    TZ_VALUES[((i / CHUNK) % TZ_VALUES.len() as u64) as usize]
}

/// fd 2 is part of the simulated environment as well (`stderr`, `debug`, `halt_error`,
/// `input_line_number` diagnostics write to it from inside the evaluators): in one chunk
/// of trials out of three it is a device that refuses every write (`/dev/full`, ENOSPC).
/// The harness itself never needs fd 2 of a child: panics are captured by a hook and
/// reported on fd 1.
fn writes_diagnostics(program: &str) -> bool {
    ["stderr", "debug", "halt_error", "input_line_number"].iter().any(|w| program.contains(w))
}

fn stderr_full_for_trial(i: u64) -> bool {
    (i / CHUNK) % 3 == 1
}

static CHILDREN_STDERR_FULL: AtomicU64 = AtomicU64::new(0);

fn spawn_child(args: &[String], tz: &str, stderr_full: bool) -> std::io::Result<std::process::Child> {
    CHILDREN_SPAWNED.fetch_add(1, Ordering::Relaxed);
    let exe = std::env::current_exe()?;
    let err = if stderr_full {
        CHILDREN_STDERR_FULL.fetch_add(1, Ordering::Relaxed);
        Stdio::from(std::fs::OpenOptions::new().write(true).open("/dev/full")?)
    } else {
        Stdio::piped()
    };
    Command::new(exe)
        .args(args)
        .env_clear()
        .env("PATH", "/usr/bin:/bin")
        .env("HOME", "/nonexistent")
        .env("TZ", tz)
        .env("LEGACY_NAME", hostile_env_value())
        .env("VERIF_ROOT", verif_root())
        .stdin(Stdio::null())
        .stdout(Stdio::piped())
        .stderr(err)
        .spawn()
}

fn drive_child(mut child: std::process::Child, from: u64, to: u64) -> ChildRun {
    let stdout = child.stdout.take().expect("piped stdout");
    let stderr = child.stderr.take();
    let err_thread = std::thread::spawn(move || {
        let mut buf = Vec::new();
        let mut chunk = [0u8; 4096];
        let Some(mut stderr) = stderr else {
            return String::new();
        };
        loop {
            match stderr.read(&mut chunk) {
                Ok(0) | Err(_) => break,
                Ok(n) => {
                    buf.extend_from_slice(&chunk[..n]);
                    if buf.len() > 16384 {
                        let cut = buf.len() - 4096;
                        buf.drain(..cut);
                    }
                }
            }
        }
        String::from_utf8_lossy(&buf).into_owned()
    });
    let mut outcomes = Vec::new();
    let mut inflight: Option<u64> = None;
    let mut last_refusal: Option<(u64, Refusal)> = None;
    let mut timed_out: Option<u64> = None;
    let reader = BufReader::new(stdout);
    for line in reader.split(b'\n') {
        let Ok(line) = line else { break };
        let line = String::from_utf8_lossy(&line).into_owned();
        let mut it = line.split(' ');
        match it.next() {
            Some("S") => {
                inflight = it.next().and_then(|x| x.parse().ok());
            }
            Some("E") => {
                let i: u64 = it.next().and_then(|x| x.parse().ok()).unwrap_or(u64::MAX);
                let class = it.next().unwrap_or("?").to_string();
                let refusals = it.next().and_then(|x| x.parse().ok()).unwrap_or(0);
                let class_a = it.next().and_then(|x| x.parse().ok()).unwrap_or(0);
                let peak = it.next().and_then(|x| x.parse().ok()).unwrap_or(0);
                let _allocs = it.next();
                let msg = it.collect::<Vec<_>>().join(" ");
                outcomes.push((i, Outcome::Ended { class, refusals, class_a, peak, msg }));
                inflight = None;
            }
            Some("REFUSE") => {
                let t: u64 = it.next().and_then(|x| x.parse().ok()).unwrap_or(u64::MAX);
                let size = it.next().and_then(|x| x.parse().ok()).unwrap_or(0);
                let live = it.next().and_then(|x| x.parse().ok()).unwrap_or(0);
                let peak = it.next().and_then(|x| x.parse().ok()).unwrap_or(0);
                let class_a = it.next() == Some("A");
                last_refusal = Some((t, Refusal { size, live, peak, class_a, site: String::new() }));
            }
            Some("SITE") => {
                let t: u64 = it.next().and_then(|x| x.parse().ok()).unwrap_or(u64::MAX);
                let site = it.collect::<Vec<_>>().join(" ");
                if let Some((rt, r)) = last_refusal.as_mut() {
                    if *rt == t {
                        r.site = site;
                    }
                }
            }
            Some("T") => {
                timed_out = it.next().and_then(|x| x.parse().ok());
            }
            _ => {}
        }
    }
    let status = child.wait().ok();
    let stderr_tail = err_thread.join().unwrap_or_default();
    let mut next = to;
    if let Some(t) = timed_out {
        outcomes.push((t, Outcome::TimedOut));
        next = t + 1;
    } else if let Some(t) = inflight {
        let (signal, code) = status.map_or((None, None), |s| (s.signal(), s.code()));
        let lr = last_refusal.filter(|(rt, _)| *rt == t).map(|(_, r)| r);
        let tail: String = stderr_tail.chars().rev().take(600).collect::<String>().chars().rev().collect();
        outcomes.push((
            t,
            Outcome::Died {
                signal,
                code,
                last_refusal: lr,
                stderr_tail: tail,
            },
        ));
        next = t + 1;
    } else if outcomes.len() as u64 != to - from {
        // child exited early without a trial in flight: harness problem
        let done = outcomes.last().map_or(from, |(i, _)| i + 1);
        if done < to {
            eprintln!("harness error: child ended early at trial {done} (status {status:?}); stderr: {stderr_tail}");
            std::process::exit(2);
        }
    }
    ChildRun { outcomes, next }
}

/// Largest bracket nesting depth of a text (strings are not parsed: an over-estimate is fine).
fn bracket_depth(text: &str) -> usize {
    let mut d = 0usize;
    let mut max = 0usize;
    for b in text.bytes() {
        match b {
            b'[' | b'{' | b'(' => {
                d += 1;
                max = max.max(d);
            }
            b']' | b'}' | b')' => d = d.saturating_sub(1),
            _ => {}
        }
    }
    max
}

/// Could this trial have built a value nested 200+ levels deep? True for a deep input, a
/// deeply bracketed program, text repeated 200+ times (`"[" * 385 | fromjson`), or an
/// explicit `range(N)` with N >= 200 (the canonical
/// `reduce range(400) as $i (null; [.])`). Used to scope the nesting-depth known finding:
/// the same panic on shallow data is NOT the known finding.
fn deep_data(program: &str, input: &str) -> bool {
    if bracket_depth(input) >= 200 || bracket_depth(program) >= 200 {
        return true;
    }
    // text built by repetition: `("[" * 385) | fromjson`
    let mut rest = program;
    while let Some(p) = rest.find("* ") {
        rest = &rest[p + 2..];
        let digits: String = rest.chars().take_while(char::is_ascii_digit).collect();
        if digits.parse::<u64>().map_or(false, |n| n >= 200) {
            return true;
        }
    }
    let mut rest = program;
    while let Some(p) = rest.find("range(") {
        rest = &rest[p + 6..];
        let digits: String = rest.chars().take_while(char::is_ascii_digit).collect();
        if digits.parse::<u64>().map_or(false, |n| n >= 200) {
            return true;
        }
    }
    false
}

/// Classify an outcome of a known (program, input): adds what a known-finding signature
/// needs to be narrow (the un-normalised panic message, whether deep data was in play).
fn classify(o: &Outcome, program: &str, input: &str) -> Option<Failure> {
    let mut f = classify_raw(o)?;
    if f.class.starts_with("panic:") {
        if let (Value::Object(d), Outcome::Ended { msg, .. }) = (&mut f.detail, o) {
            let head = msg.split("_@_").next().unwrap_or("").replace('_', " ");
            let head = head.split('`').next().unwrap_or("").trim().to_string();
            d.insert("message".into(), json!(head));
            d.insert("deep_data".into(), json!(deep_data(program, input)));
        }
    }
    Some(f)
}

/// Classify an outcome. `None` = fine (or legitimately discarded).
fn classify_raw(o: &Outcome) -> Option<Failure> {
    match o {
        Outcome::Ended { class, msg, .. } if class == "PANIC" => {
            // The class is the message up to the first quoted excerpt of the
            // program/value (which would make every class unique).
            let head = msg.split("_@_").next().unwrap_or("").replace('_', " ");
            // keep short quoted names (`Option::unwrap()`), drop long quoted excerpts
            let mut kept = String::new();
            for (i, seg) in head.split('`').enumerate() {
                if i % 2 == 0 {
                    kept.push_str(seg);
                } else if seg.chars().count() <= 40 {
                    kept.push('`');
                    kept.push_str(seg);
                    kept.push('`');
                } else {
                    kept.push_str("`…`");
                }
            }
            let head = kept;
            let head = match head.find(" is inside ") {
                Some(p) => head[..p].to_string(),
                None => head,
            };
            Some(Failure {
                class: format!("panic:{}", normalise(&head)),
                seq: 0,
                detail: json!({"panic": msg}),
            })
        }
        Outcome::Ended { class, .. } if class == "HARNESS" => Some(Failure {
            class: "harness:cannot-run-trial".into(),
            seq: 0,
            detail: json!({}),
        }),
        Outcome::Ended { .. } | Outcome::TimedOut => None,
        Outcome::Died { signal, code, last_refusal, stderr_tail } => match last_refusal {
            Some(r) if !r.class_a => None, // class B: cumulative exhaustion, discarded
            Some(r) => Some(Failure {
                class: "abort:impossible-allocation-refused".into(),
                seq: 0,
                detail: json!({"signal": signal, "refused_bytes": r.size, "live_bytes": r.live, "peak_bytes": r.peak,
                               "site": r.site, "stderr_tail": stderr_tail}),
            }),
            None => {
                let what = if stderr_tail.contains("overflowed its stack") {
                    "stack-overflow"
                } else {
                    "crash-without-refusal"
                };
                Some(Failure {
                    class: format!("abort:{what}"),
                    seq: 0,
                    detail: json!({"signal": signal, "exit_code": code, "stderr_tail": stderr_tail}),
                })
            }
        },
    }
}

#[derive(Clone, Debug, Serialize, Deserialize)]
struct Case {
    program: String,
    input: String,
    mem: u64,
    b_first: bool,
    /// Run through the real `succinctly jq` binary under RLIMIT_AS instead of in-process.
    #[serde(default)]
    cli: bool,
    /// Value of `TZ` in the simulated environment (default UTC).
    #[serde(default)]
    tz: Option<String>,
    /// fd 2 of the simulated process refuses every write (in-process tier only).
    #[serde(default)]
    stderr_full: bool,
}

#[derive(Serialize, Deserialize)]
struct ReplayFile {
    property: String,
    engine: String,
    seed: u64,
    run: u64,
    minimised: bool,
    original_program_chars: usize,
    case: Case,
    expect: Failure,
}

fn tmp_dir() -> std::path::PathBuf {
    let d = verif_root().join("sim").join("target").join("allocsim-tmp");
    let _ = std::fs::create_dir_all(&d);
    d
}

static TMP_COUNTER: AtomicU64 = AtomicU64::new(0);

// --------------------------------------------------------------- CLI tier --

const CLI_MEM: u64 = 1 << 30;

fn cli_path() -> Option<std::path::PathBuf> {
    std::env::var_os("SUCCINCTLY_CLI").map(std::path::PathBuf::from).filter(|p| p.exists())
}

/// Run one case through the real `succinctly jq` binary with RLIMIT_AS = 1 GiB and classify
/// its exit status. Real time is used only to discard (10 s).
fn run_case_cli(case: &Case) -> (Outcome, Option<Failure>) {
    use std::os::unix::process::CommandExt;
    let Some(cli) = cli_path() else {
        eprintln!("harness error: SUCCINCTLY_CLI is not set or does not exist");
        std::process::exit(2);
    };
    let n = TMP_COUNTER.fetch_add(1, Ordering::Relaxed);
    let pid = std::process::id();
    let pf = tmp_dir().join(format!("c-{pid}-{n}.jq"));
    let _ = std::fs::write(&pf, &case.program);
    let mut cmd = Command::new(cli);
    cmd.args(["jq", "-c", "--from-file"])
        .arg(&pf)
        .env_clear()
        .env("PATH", "/usr/bin:/bin")
        .env("HOME", "/nonexistent")
        .env("TZ", case.tz.as_deref().unwrap_or("UTC"))
        .env("LEGACY_NAME", hostile_env_value())
        .stdin(Stdio::piped())
        .stdout(Stdio::null())
        .stderr(Stdio::piped());
    // SAFETY: setrlimit is async-signal-safe; no allocation in the closure.
    unsafe {
        cmd.pre_exec(|| {
            let lim = libc::rlimit { rlim_cur: CLI_MEM, rlim_max: CLI_MEM };
            libc::setrlimit(libc::RLIMIT_AS, &lim);
            let core = libc::rlimit { rlim_cur: 0, rlim_max: 0 };
            libc::setrlimit(libc::RLIMIT_CORE, &core);
            Ok(())
        });
    }
    let mut child = match cmd.spawn() {
        Ok(c) => c,
        Err(e) => {
            eprintln!("harness error: cannot spawn the CLI: {e}");
            std::process::exit(2);
        }
    };
    if let Some(mut stdin) = child.stdin.take() {
        let _ = stdin.write_all(case.input.as_bytes());
    }
    let mut stderr = child.stderr.take().expect("piped stderr");
    let err_thread = std::thread::spawn(move || {
        let mut buf = Vec::new();
        let mut chunk = [0u8; 4096];
        loop {
            match stderr.read(&mut chunk) {
                Ok(0) | Err(_) => break,
                Ok(k) => {
                    buf.extend_from_slice(&chunk[..k]);
                    if buf.len() > 65536 {
                        let cut = buf.len() - 16384;
                        buf.drain(..cut);
                    }
                }
            }
        }
        String::from_utf8_lossy(&buf).into_owned()
    });
    let t0 = Instant::now();
    let status = loop {
        match child.try_wait() {
            Ok(Some(st)) => break Some(st),
            Ok(None) => {
                if t0.elapsed().as_secs() >= WATCHDOG_S {
                    let _ = child.kill();
                    let _ = child.wait();
                    break None;
                }
                std::thread::sleep(std::time::Duration::from_millis(2));
            }
            Err(_) => break None,
        }
    };
    let err = err_thread.join().unwrap_or_default();
    let _ = std::fs::remove_file(&pf);
    let Some(status) = status else {
        return (Outcome::TimedOut, None);
    };
    let signal = status.signal();
    let code = status.code();
    let crashed = signal.is_some() || code == Some(101) || code == Some(134);
    if !crashed {
        let class = format!("exit{}", code.unwrap_or(-1));
        return (Outcome::Ended { class, refusals: 0, class_a: 0, peak: 0, msg: String::new() }, None);
    }
    let tail: String = err.chars().rev().take(600).collect::<String>().chars().rev().collect();
    // a refused allocation: "memory allocation of N bytes failed"
    if let Some(p) = err.find("memory allocation of ") {
        let rest = &err[p + "memory allocation of ".len()..];
        let size: u64 = rest.split(' ').next().and_then(|x| x.parse().ok()).unwrap_or(0);
        let class_a = size >= CLI_MEM / 2;
        let o = Outcome::Died {
            signal,
            code,
            last_refusal: Some(Refusal { size, live: 0, peak: 0, class_a, site: String::new() }),
            stderr_tail: tail,
        };
        let f = classify(&o, &case.program, &case.input);
        return (o, f);
    }
    if let Some(p) = err.find("panicked at ") {
        // "thread 'main' panicked at file:line:col:\nmessage"
        let rest = &err[p..];
        let msg = rest.lines().nth(1).unwrap_or("").trim().to_string();
        let o = Outcome::Ended { class: "PANIC".into(), refusals: 0, class_a: 0, peak: 0, msg: esc(&msg) };
        let f = classify(&o, &case.program, &case.input);
        return (o, f);
    }
    let o = Outcome::Died { signal, code, last_refusal: None, stderr_tail: tail };
    let f = classify(&o, &case.program, &case.input);
    (o, f)
}

/// Run one explicit case in a fresh child and classify it.
fn run_case(case: &Case) -> (Outcome, Option<Failure>) {
    run_case_site(case, false)
}

/// Same, optionally asking the child to report the call site of a class A refusal.
fn run_case_site(case: &Case, site: bool) -> (Outcome, Option<Failure>) {
    if case.cli {
        return run_case_cli(case);
    }
    let n = TMP_COUNTER.fetch_add(1, Ordering::Relaxed);
    let pid = std::process::id();
    let pf = tmp_dir().join(format!("p-{pid}-{n}.jq"));
    let inf = tmp_dir().join(format!("i-{pid}-{n}.json"));
    let _ = std::fs::write(&pf, &case.program);
    let _ = std::fs::write(&inf, &case.input);
    let args = vec![
        "--one".to_string(),
        "--mem".to_string(),
        case.mem.to_string(),
        "--program-file".to_string(),
        pf.display().to_string(),
        "--input-file".to_string(),
        inf.display().to_string(),
        "--b-first".to_string(),
        if case.b_first { "1" } else { "0" }.to_string(),
        "--site".to_string(),
        if site { "1" } else { "0" }.to_string(),
    ];
    let child = match spawn_child(&args, case.tz.as_deref().unwrap_or("UTC"), case.stderr_full) {
        Ok(c) => c,
        Err(e) => {
            eprintln!("harness error: cannot spawn child: {e}");
            std::process::exit(2);
        }
    };
    let run = drive_child(child, 0, 1);
    let _ = std::fs::remove_file(&pf);
    let _ = std::fs::remove_file(&inf);
    let o = run.outcomes.into_iter().next().map_or(Outcome::TimedOut, |(_, o)| o);
    let f = classify(&o, &case.program, &case.input);
    (o, f)
}

fn minimise(case: &Case, class: &str) -> (Case, Failure, u64) {
    let mut best = case.clone();
    let mut attempts = 0u64;
    let same = |c: &Case, attempts: &mut u64| -> Option<Failure> {
        *attempts += 1;
        match run_case(c).1 {
            Some(f) if f.class == class => Some(f),
            _ => None,
        }
    };
    let mut best_f = match same(&best, &mut attempts) {
        Some(f) => f,
        None => {
            return (
                best,
                Failure {
                    class: format!("unconfirmed:{class}"),
                    seq: 0,
                    detail: json!({"note": "the failure did not recur when the trial was re-run alone in a fresh child"}),
                },
                attempts,
            )
        }
    };
    // simplest inputs first
    for cand in ["null", "0", "[]", "{}", "\"a\"", "[1,2]"] {
        if best.input != cand {
            let mut c = best.clone();
            c.input = cand.to_string();
            if let Some(f) = same(&c, &mut attempts) {
                best = c;
                best_f = f;
                break;
            }
        }
    }
    // ddmin over program characters
    let budget = 400u64;
    let mut chunk = (best.program.chars().count() / 2).max(1);
    while chunk >= 1 && attempts < budget {
        let chars: Vec<char> = best.program.chars().collect();
        let mut start = 0;
        let mut removed = false;
        let mut cur = chars.clone();
        while start < cur.len() && attempts < budget {
            let end = (start + chunk).min(cur.len());
            let mut cand: Vec<char> = cur[..start].to_vec();
            cand.extend_from_slice(&cur[end..]);
            let mut c = best.clone();
            c.program = cand.iter().collect();
            if let Some(f) = same(&c, &mut attempts) {
                cur = cand;
                best = c;
                best_f = f;
                removed = true;
            } else {
                start = end;
            }
        }
        if chunk == 1 && !removed {
            break;
        }
        if !removed {
            chunk /= 2;
        } else {
            chunk = chunk.min((cur.len() / 2).max(1));
        }
    }
    (best, best_f, attempts)
}

struct Stats {
    trials: u64,
    by_class: BTreeMap<String, u64>,
    by_kind: BTreeMap<String, u64>,
    refusals_delivered: u64,
    class_a_refusals: u64,
    trials_with_refusal: u64,
    trials_with_handled_class_a: u64,
    died_class_b_discarded: u64,
    timed_out_discarded: u64,
    fault_free_trials: u64,
    stderr_full_writers: u64,
    fault_free_refusals: u64,
    known_hits: BTreeMap<String, u64>,
    distinct_programs: std::collections::HashSet<u64>,
    distinct_nontrivial: std::collections::HashSet<u64>,
    log: Vec<(u64, u64)>,
    violations: Vec<(u64, Failure)>,
    samples: Vec<(u64, Value)>,
    peak_max: u64,
}

fn run_parent(seed: u64, tier: Tier, runs: u64, workers: usize, want_log_hash: bool) -> i32 {
    let t0 = Instant::now();
    let known = load_known("C30");
    println!(
        "VERIF_SEED={seed} property=C30 engine=allocsim tier={} runs={runs} workers={workers}",
        tier.name()
    );

    // KNOWN-FINDING lines: replay each canonical case
    let mut klines = Vec::new();
    for k in &known {
        let Some(rel) = &k.canonical_replay else { continue };
        let path = verif_root().join(rel);
        let text = std::fs::read_to_string(&path).unwrap_or_else(|e| {
            eprintln!("harness error: cannot read {}: {e}", path.display());
            std::process::exit(2)
        });
        let rf: ReplayFile = serde_json::from_str(&text).unwrap_or_else(|e| {
            eprintln!("harness error: bad replay file {}: {e}", path.display());
            std::process::exit(2)
        });
        match run_case(&rf.case).1 {
            Some(f) if matches_known(&f, std::slice::from_ref(k)).is_some() => {
                let l = format!("KNOWN-FINDING: property=C30 {} [{}]", k.what, k.id);
                println!("{l}");
                klines.push(l);
            }
            Some(f) => println!("note: canonical case of known finding {} now fails with class {:?}", k.id, f.class),
            None => println!("note: canonical case of known finding {} no longer fails (fixed?)", k.id),
        }
    }

    let next_chunk = AtomicU64::new(0);
    let n_chunks = runs.div_ceil(CHUNK);
    let stats = Mutex::new(Stats {
        trials: 0,
        by_class: BTreeMap::new(),
        by_kind: BTreeMap::new(),
        refusals_delivered: 0,
        class_a_refusals: 0,
        trials_with_refusal: 0,
        trials_with_handled_class_a: 0,
        died_class_b_discarded: 0,
        timed_out_discarded: 0,
        fault_free_trials: 0,
        stderr_full_writers: 0,
        fault_free_refusals: 0,
        known_hits: BTreeMap::new(),
        distinct_programs: Default::default(),
        distinct_nontrivial: Default::default(),
        log: Vec::new(),
        violations: Vec::new(),
        samples: Vec::new(),
        peak_max: 0,
    });

    std::thread::scope(|scope| {
        for _ in 0..workers.max(1) {
            scope.spawn(|| loop {
                let c = next_chunk.fetch_add(1, Ordering::Relaxed);
                if c >= n_chunks {
                    break;
                }
                let lo = c * CHUNK;
                let hi = (lo + CHUNK).min(runs);
                let mut from = lo;
                let mut local: Vec<(u64, Outcome)> = Vec::new();
                while from < hi {
                    let args = vec![
                        "--child".to_string(),
                        "--seed".to_string(),
                        seed.to_string(),
                        "--from".to_string(),
                        from.to_string(),
                        "--to".to_string(),
                        hi.to_string(),
                    ];
                    let child = match spawn_child(&args, tz_for_trial(lo), stderr_full_for_trial(lo)) {
                        Ok(c) => c,
                        Err(e) => {
                            eprintln!("harness error: cannot spawn child: {e}");
                            std::process::exit(2);
                        }
                    };
                    let run = drive_child(child, from, hi);
                    local.extend(run.outcomes);
                    from = run.next;
                }
                let mut st = stats.lock().unwrap();
                for (i, o) in local {
                    let t = progen::trial(seed, i);
                    st.trials += 1;
                    *st.by_kind.entry(t.kind.to_string()).or_default() += 1;
                    let ph = fnv1a(t.program.as_bytes()) ^ fnv1a(t.input.as_bytes()).rotate_left(17);
                    st.distinct_programs.insert(ph);
                    if t.extreme_pct == 0 {
                        st.fault_free_trials += 1;
                    }
                    if stderr_full_for_trial(i) && writes_diagnostics(&t.program) {
                        st.stderr_full_writers += 1;
                    }
                    let mut class_name;
                    let mut refusals_n = 0u32;
                    let mut class_a_n = 0u32;
                    match &o {
                        Outcome::Ended { class, refusals, class_a, peak, .. } => {
                            class_name = class.clone();
                            refusals_n = *refusals;
                            class_a_n = *class_a;
                            st.refusals_delivered += *refusals as u64;
                            st.class_a_refusals += *class_a as u64;
                            if *refusals > 0 {
                                st.trials_with_refusal += 1;
                            }
                            if *class_a > 0 && class != "PANIC" {
                                st.trials_with_handled_class_a += 1;
                            }
                            if t.extreme_pct == 0 {
                                st.fault_free_refusals += *refusals as u64;
                            }
                            st.peak_max = st.peak_max.max(*peak);
                            // non-trivial: the program parsed and was evaluated
                            if class != "parse_error" {
                                st.distinct_nontrivial.insert(ph);
                            }
                        }
                        Outcome::Died { last_refusal, .. } => {
                            class_name = "DIED".to_string();
                            st.distinct_nontrivial.insert(ph);
                            if let Some(r) = last_refusal {
                                st.refusals_delivered += 1;
                                st.trials_with_refusal += 1;
                                refusals_n = 1;
                                if r.class_a {
                                    st.class_a_refusals += 1;
                                    class_a_n = 1;
                                    class_name = "DIED_A".into();
                                } else {
                                    st.died_class_b_discarded += 1;
                                    class_name = "DIED_B".into();
                                }
                                if t.extreme_pct == 0 {
                                    st.fault_free_refusals += 1;
                                }
                            }
                        }
                        Outcome::TimedOut => {
                            class_name = "TIMEOUT".to_string();
                            st.timed_out_discarded += 1;
                        }
                    }
                    if let Ok(want) = std::env::var("ALLOCSIM_LIST") {
                        if class_name == want {
                            println!("LIST {class_name} trial={i} mem={} program: {} ### input: {}", t.mem, t.program.chars().take(300).collect::<String>(), t.input.chars().take(60).collect::<String>());
                        }
                    }
                    *st.by_class.entry(class_name.clone()).or_default() += 1;
                    if want_log_hash {
                        let mut h = Fnv::default();
                        h.u64(i);
                        h.bytes(class_name.as_bytes());
                        h.u64(refusals_n as u64);
                        h.u64(class_a_n as u64);
                        let x = h.0;
                        st.log.push((i, x));
                    }
                    if i < 3 || (i.is_power_of_two() && i <= 1 << 16) {
                        st.samples.push((
                            i,
                            json!({"trial": i, "kind": t.kind, "extreme_pct": t.extreme_pct, "mem": t.mem,
                                   "program": t.program.chars().take(240).collect::<String>(),
                                   "input": t.input.chars().take(120).collect::<String>(), "outcome": class_name}),
                        ));
                    }
                    if let Some(f) = classify(&o, &t.program, &t.input) {
                        if let Some(k) = matches_known(&f, &known) {
                            *st.known_hits.entry(known[k].id.clone()).or_default() += 1;
                        } else {
                            st.violations.push((i, f));
                        }
                    }
                }
            });
        }
    });

    let mut st = stats.into_inner().unwrap();

    // ---- CLI tier: the same trials through the real `succinctly jq` binary ----
    let cli_trials: u64 = std::env::var("ALLOCSIM_CLI_TRIALS")
        .ok()
        .and_then(|s| s.parse().ok())
        .unwrap_or(if tier == Tier::Thorough { 60_000 } else { 0 })
        .min(runs);
    let mut cli_classes: BTreeMap<String, u64> = BTreeMap::new();
    let mut cli_violations: Vec<(u64, Failure)> = Vec::new();
    let mut cli_known: BTreeMap<String, u64> = BTreeMap::new();
    let mut cli_wall = 0.0;
    if cli_trials > 0 {
        if cli_path().is_none() {
            eprintln!("harness error: the CLI tier needs SUCCINCTLY_CLI (built by ./check)");
            return 2;
        }
        let tc = Instant::now();
        let next = AtomicU64::new(0);
        let acc: Mutex<(BTreeMap<String, u64>, Vec<(u64, Failure)>, BTreeMap<String, u64>)> = Mutex::new(Default::default());
        std::thread::scope(|scope| {
            for _ in 0..workers.max(1) {
                scope.spawn(|| {
                    let mut classes: BTreeMap<String, u64> = BTreeMap::new();
                    let mut viol = Vec::new();
                    let mut kn: BTreeMap<String, u64> = BTreeMap::new();
                    loop {
                        let i = next.fetch_add(1, Ordering::Relaxed);
                        if i >= cli_trials {
                            break;
                        }
                        let t = progen::trial(seed, i);
                        let case = Case { program: t.program, input: t.input, mem: CLI_MEM, b_first: false, cli: true, tz: Some(tz_for_trial(i).to_string()), stderr_full: false };
                        let (o, f) = run_case_cli(&case);
                        let name = match &o {
                            Outcome::Ended { class, .. } => class.clone(),
                            Outcome::Died { last_refusal: Some(r), .. } => if r.class_a { "DIED_A".into() } else { "DIED_B".into() },
                            Outcome::Died { .. } => "DIED".into(),
                            Outcome::TimedOut => "TIMEOUT".into(),
                        };
                        *classes.entry(name).or_default() += 1;
                        if let Some(f) = f {
                            if let Some(k) = matches_known(&f, &known) {
                                *kn.entry(known[k].id.clone()).or_default() += 1;
                            } else {
                                viol.push((i, f));
                            }
                        }
                    }
                    let mut g = acc.lock().unwrap();
                    for (k, v) in classes {
                        *g.0.entry(k).or_default() += v;
                    }
                    g.1.extend(viol);
                    for (k, v) in kn {
                        *g.2.entry(k).or_default() += v;
                    }
                });
            }
        });
        let g = acc.into_inner().unwrap();
        cli_classes = g.0;
        cli_violations = g.1;
        cli_known = g.2;
        cli_violations.sort_by_key(|(i, _)| *i);
        cli_wall = tc.elapsed().as_secs_f64();
        println!("cli tier: trials={cli_trials} classes={cli_classes:?} known_hits={cli_known:?} violations={} wall={cli_wall:.1}s", cli_violations.len());
    }
    let wall = t0.elapsed().as_secs_f64();
    if want_log_hash {
        st.log.sort_unstable();
        let mut h = Fnv::default();
        for (i, x) in &st.log {
            h.u64(*i);
            h.u64(*x);
        }
        println!("LOGHASH {:016x}", h.0);
    }
    st.violations.sort_by_key(|(i, _)| *i);
    st.samples.sort_by_key(|(i, _)| *i);
    if std::env::var("ALLOCSIM_HISTOGRAM").is_ok() {
        let mut h: BTreeMap<String, (u64, u64)> = BTreeMap::new();
        for (i, f) in &st.violations {
            let e = h.entry(f.class.clone()).or_insert((0, *i));
            e.0 += 1;
        }
        for (c, (n, first)) in &h {
            let t = progen::trial(seed, *first);
            println!("HIST {n:6} first={first} {c}\n        program: {}\n        input: {}", t.program.chars().take(200).collect::<String>(), t.input.chars().take(80).collect::<String>());
        }
    }

    let mut code = 0;
    let mut extra = json!({});
    if let Some((i, f)) = st.violations.iter().find(|(_, f)| f.class.starts_with("harness:")) {
        eprintln!("harness error at trial {i}: {}", f.class);
        return 2;
    }
    // Report the violation with the smallest trial index that is confirmed
    // when re-run alone in a fresh child.
    let all_violations: Vec<(u64, Failure, bool)> = st
        .violations
        .iter()
        .take(8)
        .map(|(i, f)| (*i, f.clone(), false))
        .chain(cli_violations.iter().take(8).map(|(i, f)| (*i, f.clone(), true)))
        .collect();
    for (i, f, via_cli) in all_violations.iter() {
        let t = progen::trial(seed, *i);
        let case = Case {
            program: t.program.clone(),
            input: t.input.clone(),
            mem: if *via_cli { CLI_MEM } else { t.mem as u64 },
            b_first: i % 2 == 1,
            cli: *via_cli,
            tz: Some(tz_for_trial(*i).to_string()),
            stderr_full: !*via_cli && stderr_full_for_trial(*i),
        };
        let (min_case, mut min_f, attempts) = minimise(&case, &f.class);
        if !min_f.class.starts_with("unconfirmed:") {
            // one more run of the minimised case, asking for the call site of the refusal
            if let (_, Some(f2)) = run_case_site(&min_case, true) {
                if f2.class == min_f.class {
                    min_f = f2;
                }
            }
        }
        if min_f.class.starts_with("unconfirmed:") {
            println!("note: trial {i} ({}) did not recur alone in a fresh child; not reported", f.class);
            continue;
        }
        let dir = verif_root().join("replays");
        let _ = std::fs::create_dir_all(&dir);
        let path = dir.join(format!("C30-{seed}-{i}{}.json", if *via_cli { "-cli" } else { "" }));
        let rf = ReplayFile {
            property: "C30".into(),
            engine: "allocsim".into(),
            seed,
            run: *i,
            minimised: true,
            original_program_chars: t.program.chars().count(),
            case: min_case.clone(),
            expect: min_f.clone(),
        };
        if let Err(e) = std::fs::write(&path, serde_json::to_string_pretty(&rf).unwrap()) {
            eprintln!("harness error: cannot write {}: {e}", path.display());
            return 2;
        }
        println!(
            "violation at trial {i} (seed {seed}): class={} | program {} -> {} chars after {attempts} child runs",
            min_f.class,
            t.program.chars().count(),
            min_case.program.chars().count()
        );
        println!("program: {}", min_case.program);
        println!("input: {}", min_case.input);
        println!("detail: {}", min_f.detail);
        println!("VIOLATION property=C30 replay={}", path.display());
        extra = json!({"violation": {"trial": i, "class": min_f.class, "program": min_case.program, "input": min_case.input,
                                       "mem": min_case.mem, "detail": min_f.detail, "replay": path.display().to_string()},
                       "other_violating_trials": st.violations.iter().map(|(i, f)| json!([i, f.class])).take(20).collect::<Vec<_>>()});
        code = 1;
        break;
    }

    println!(
        "trials={} classes={:?} refusals={} classA={} handledA={} diedB_discarded={} timeouts_discarded={} known_hits={:?} wall={:.1}s",
        st.trials,
        st.by_class,
        st.refusals_delivered,
        st.class_a_refusals,
        st.trials_with_handled_class_a,
        st.died_class_b_discarded,
        st.timed_out_discarded,
        st.known_hits,
        wall
    );

    // reach self-check (only for default-size runs)
    let mut missing: Vec<&str> = Vec::new();
    if code == 0 {
        if st.class_a_refusals == 0 {
            missing.push("class_a_refusal_delivered");
        }
        if st.trials_with_handled_class_a == 0 {
            missing.push("class_a_refusal_handled_by_the_code");
        }
        if st.by_class.get("parse_error").copied().unwrap_or(0) == 0 {
            missing.push("parse_error");
        }
        if st.fault_free_trials == 0 {
            missing.push("fault_free_trials");
        }
        if st.trials >= 50_000 && st.stderr_full_writers == 0 {
            missing.push("diagnostic_written_to_unwritable_stderr");
        }
    }

    // evidence
    let coverage = json!({
        "evaluations": st.trials,
        "distinct_nontrivial": st.distinct_nontrivial.len(),
        "distinct_programs": st.distinct_programs.len(),
        "rule": "Trial i is a pure function of (VERIF_SEED, i): a program (70% grammar-generated over paths, pipes, construction, arithmetic, control flow, reduce/foreach with bounded generators, label/break, destructuring, non-recursive def, format strings and the builtins that size an allocation or an index from an operand; 15% token soup incl. non-ASCII; 15% character-level mutation of a generated program), a small JSON input (occasionally 100-400 levels deep), an extreme-operand rate in {0, 10, 50}% (0 = fault-free traffic) and a machine size M in {256 MiB, 512 MiB}. Each trial is parsed and evaluated by both evaluators (jq::eval and eval_generic::eval_with_cursor), all outputs materialised and printed to a string, on a fresh 8 MiB-stack thread whose allocations are granted iff live + size <= M. Non-trivial = the program parsed and was evaluated; distinct = distinct (program, input) hashes, exact.",
        "samples": st.samples.iter().take(8).map(|(_, v)| v.clone()).collect::<Vec<_>>(),
        "outcome_classes": st.by_class,
        "program_kinds": st.by_kind,
        "fault_counts": {
            "alloc_refuse_total": st.refusals_delivered,
            "alloc_refuse_class_A_impossible_request": st.class_a_refusals,
            "alloc_refuse_class_B_cumulative": st.refusals_delivered - st.class_a_refusals,
            "trials_with_a_refusal": st.trials_with_refusal,
            "class_A_refusals_survived_as_value_or_error": st.trials_with_handled_class_a,
            "child_deaths_after_class_B_discarded": st.died_class_b_discarded,
            "watchdog_discards": st.timed_out_discarded,
            "child_processes_started_with_a_non_unicode_environment_variable": CHILDREN_SPAWNED.load(Ordering::Relaxed),
            "child_processes_started_with_an_unwritable_stderr": CHILDREN_STDERR_FULL.load(Ordering::Relaxed),
            "trials_writing_diagnostics_to_an_unwritable_stderr": st.stderr_full_writers,
        },
        "fault_free": {"trials": st.fault_free_trials, "refusals": st.fault_free_refusals},
        "peak_live_bytes_max": st.peak_max,
        "runs_per_hour": if wall > 0.0 { (st.trials as f64 / wall * 3600.0) as u64 } else { 0 },
        "simulated_time": "none: no clock or timer in the code under test; logical steps = trials",
        "workers": workers,
        "known_findings_hit": st.known_hits,
        "known_finding_lines": klines,
        "reach_selfcheck_missing": missing,
        "cli_tier": {
            "what": "the same trials (seed, i) run through the real `succinctly jq -c --from-file` binary built from /repo, stdin = the input, RLIMIT_AS = 1 GiB, 10 s discard timeout; a death by signal, exit 101 or 134 is classified from stderr (refused allocation size, panic message, stack overflow)",
            "trials": cli_trials,
            "exit_classes": cli_classes,
            "known_findings_hit": cli_known,
            "violations": cli_violations.len(),
            "wall_s": cli_wall,
        },
        "real_vs_stub": {
            "real": ["succinctly::jq::parse", "jq::eval::<Vec<u64>, JqSemantics>", "jq::eval_generic::eval_with_cursor", "JsonIndex::build",
                     "eval_generic::{to_owned,to_owned_cursor}, LazySeq::materialize_atomic, OwnedValue::to_json (result materialisation and printing)"],
            "stub": ["the CLI shell (argv/stdin/stdout handling in jq_runner.rs) is not executed", "the global allocator is SimAlloc over the system allocator", "the OS: RLIMIT_AS 8 GiB backstop, 8 MiB thread stack", "the process environment: cleared, plus PATH, HOME=/nonexistent, TZ per chunk, LEGACY_NAME=<bytes that are not valid Unicode>, fd 2 = /dev/full in one chunk of three"],
        },
        "exhaustive": false,
    });
    let mut coverage = coverage;
    if let (Value::Object(c), Value::Object(e)) = (&mut coverage, extra) {
        for (k, v) in e {
            c.insert(k, v);
        }
    }
    let ev = json!({
        "property_id": "C30",
        "tier": tier.name(),
        "seed": seed,
        "level": "exploration",
        "coverage": coverage,
        "assumptions": [
            "8 MiB stack for the evaluating thread (the documented CLI assumption); a smaller stack is outside what the code promises",
            "a refusal is class A (impossible request) iff size >= M/2 and size >= 8 x the trial's peak live bytes; a process death after any other refusal is cumulative exhaustion and is discarded and counted, never reported",
            "a trial exceeding 10 s of wall clock is discarded and counted (real time is never used to flag)",
            "generated programs terminate by construction; `now`, `env` and `shuffle` may change output values between runs but not the outcome class",
        ],
        "wall_s": wall,
        "violations": if code == 1 { 1 } else { 0 },
    });
    let dir = verif_root().join("evidence");
    let _ = std::fs::create_dir_all(&dir);
    if std::env::args().any(|a| a == "--no-evidence") {
        return code;
    }
    if let Err(e) = std::fs::write(dir.join("C30.json"), serde_json::to_string_pretty(&ev).unwrap()) {
        eprintln!("harness error: cannot write evidence: {e}");
        return 2;
    }
    if code == 0 && !missing.is_empty() && runs >= 20_000 {
        eprintln!("harness error: reach probes stuck at zero: {missing:?}");
        return 2;
    }
    // Discards are never violations, but a run that discards a lot has explored little:
    // say so instead of passing quietly.
    let discards = st.died_class_b_discarded + st.timed_out_discarded;
    if code == 0 && runs >= 20_000 && discards > (st.trials / 200).max(50) {
        eprintln!(
            "harness error: {discards} of {} trials were discarded (watchdog {} / cumulative exhaustion {}): the workload or the code under test changed character; not a verdict",
            st.trials, st.timed_out_discarded, st.died_class_b_discarded
        );
        return 2;
    }
    code
}

fn replay_file(path: &str) -> i32 {
    let text = match std::fs::read_to_string(path) {
        Ok(t) => t,
        Err(e) => {
            eprintln!("harness error: cannot read {path}: {e}");
            return 2;
        }
    };
    let rf: ReplayFile = match serde_json::from_str(&text) {
        Ok(r) => r,
        Err(e) => {
            eprintln!("harness error: bad replay file {path}: {e}");
            return 2;
        }
    };
    let (o, f) = run_case_site(&rf.case, true);
    match f {
        Some(f) => {
            println!("replayed: class={} detail={}", f.class, f.detail);
            let known: Vec<KnownFinding> = load_known("C30");
            if let Some(k) = matches_known(&f, &known) {
                println!("KNOWN-FINDING: property=C30 {} [{}]", known[k].what, known[k].id);
                0
            } else {
                println!("VIOLATION property=C30 replay={path}");
                1
            }
        }
        None => {
            println!("replay of {path}: no violation ({o:?})");
            0
        }
    }
}

fn main() {
    let argv: Vec<String> = std::env::args().skip(1).collect();
    let get = |name: &str| -> Option<String> { argv.iter().position(|a| a == name).and_then(|i| argv.get(i + 1).cloned()) };
    if argv.first().map(String::as_str) == Some("--child") {
        let seed = get("--seed").and_then(|s| s.parse().ok()).unwrap_or(0);
        let from = get("--from").and_then(|s| s.parse().ok()).unwrap_or(0);
        let to = get("--to").and_then(|s| s.parse().ok()).unwrap_or(0);
        std::process::exit(child_range(seed, from, to));
    }
    if argv.first().map(String::as_str) == Some("--one") {
        let mem: usize = get("--mem").and_then(|s| s.parse().ok()).unwrap_or(256 << 20);
        let program = get("--program-file").and_then(|p| std::fs::read_to_string(p).ok()).unwrap_or_default();
        let input = get("--input-file").and_then(|p| std::fs::read_to_string(p).ok()).unwrap_or_else(|| "null".into());
        let b_first = get("--b-first").as_deref() == Some("1");
        let site = get("--site").as_deref() == Some("1");
        std::process::exit(child_one(mem, program, input, b_first, site));
    }
    if argv.first().map(String::as_str) != Some("C30") {
        eprintln!("usage: allocsim C30 [--tier quick|thorough] [--runs N] [--seed S] [--workers W] [--log-hash] [--replay FILE]");
        std::process::exit(2);
    }
    if let Some(p) = get("--replay") {
        std::process::exit(replay_file(&p));
    }
    let tier = match get("--tier").as_deref() {
        Some("thorough") => Tier::Thorough,
        Some("quick") | None => match std::env::var("VERIF_TIER").as_deref() {
            Ok("thorough") => Tier::Thorough,
            _ => Tier::Quick,
        },
        Some(t) => {
            eprintln!("harness error: unknown tier {t}");
            std::process::exit(2)
        }
    };
    let seed = get("--seed").and_then(|s| s.parse().ok()).unwrap_or_else(env_seed);
    let runs = get("--runs").and_then(|s| s.parse().ok()).unwrap_or(match tier {
        Tier::Quick => 120_000,
        Tier::Thorough => 3_000_000,
    });
    let workers = get("--workers")
        .and_then(|s| s.parse().ok())
        .unwrap_or_else(|| std::thread::available_parallelism().map_or(8, |n| n.get()).min(16));
    let _ = std::io::stdout().flush();
    std::process::exit(run_parent(seed, tier, runs, workers, argv.iter().any(|a| a == "--log-hash")));
}
