//! histsim — history / cached-state simulation for C03, C12, C17.
use succinctly_sim::driver::{parse_args, run_scenario};

// The single-threaded history model covers all histories only while these
// types cannot be shared between threads. If a change makes one of them
// `Sync`, this stops compiling (ambiguous impl), and ./check reports exit 2.
mod not_sync {
    trait AmbiguousIfSync<A> {
        fn some_item() {}
    }
    impl<T: ?Sized> AmbiguousIfSync<()> for T {}
    struct Invalid;
    impl<T: ?Sized + Sync> AmbiguousIfSync<Invalid> for T {}
    #[allow(dead_code)]
    fn check() {
        let _ = <succinctly::text::LineIndex as AmbiguousIfSync<_>>::some_item;
        let _ = <succinctly::json::JsonIndex as AmbiguousIfSync<_>>::some_item;
        let _ = <succinctly::yaml::YamlIndex as AmbiguousIfSync<_>>::some_item;
    }
}

fn main() {
    let argv: Vec<String> = std::env::args().skip(1).collect();
    let Some(prop) = argv.first().cloned() else {
        eprintln!("usage: histsim <C03|C12|C17> [--tier quick|thorough] [--runs N] [--seed S] [--workers W] [--log-hash] [--replay FILE]");
        std::process::exit(2);
    };
    let a = parse_args(&argv[1..]);
    let code = match prop.as_str() {
        "C03" => run_scenario(&succinctly_sim::c03::C03, "exploration", 1_500_000, 40_000_000, &a),
        "C12" => run_scenario(&succinctly_sim::c12::C12, "exploration", 1_500_000, 40_000_000, &a),
        "C17" => run_scenario(&succinctly_sim::c17::C17, "exploration", 1_000_000, 30_000_000, &a),
        other => {
            eprintln!("harness error: unknown property {other}");
            2
        }
    };
    std::process::exit(code);
}
