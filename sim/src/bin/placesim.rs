//! placesim — allocator-placement simulation for C31.
use succinctly_sim::alloc::SimAlloc;
use succinctly_sim::core::load_known;
use succinctly_sim::driver::{parse_args, run_scenario};

#[global_allocator]
static GLOBAL: SimAlloc = SimAlloc;

fn main() {
    let argv: Vec<String> = std::env::args().skip(1).collect();
    let Some(prop) = argv.first().cloned() else {
        eprintln!("usage: placesim C31 [--tier quick|thorough] [--runs N] [--seed S] [--workers W] [--log-hash] [--replay FILE]");
        std::process::exit(2);
    };
    if prop != "C31" {
        eprintln!("harness error: unknown property {prop}");
        std::process::exit(2);
    }
    let a = parse_args(&argv[1..]);
    let s = succinctly_sim::c31::C31 {
        known: load_known("C31"),
    };
    std::process::exit(run_scenario(&s, "fault_enumeration", 100_000, 3_000_000, &a));
}
