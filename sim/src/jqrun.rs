//! Run the REAL generic evaluator over a cursor and render everything it
//! produces as one string (outputs, error text, control), so that two
//! evaluations can be compared for equality.

use std::fmt::Write;

use succinctly::jq::document::DocumentCursor;
use succinctly::jq::eval_generic::{self, GenericResult};
use succinctly::jq::{Control, EvalSemantics, Expr, OwnedValue};

fn push_owned(out: &mut String, v: &OwnedValue) {
    out.push_str(&v.to_json());
    out.push('\n');
}

fn push_control(out: &mut String, c: &Control) {
    match c {
        Control::Error(e) => {
            let _ = writeln!(out, "error: {e}");
        }
        Control::Break(l) => {
            let _ = writeln!(out, "break: {l}");
        }
        Control::Halt(code) => {
            let _ = writeln!(out, "halt: {code}");
        }
    }
}

pub fn eval_to_string<S: EvalSemantics, C: DocumentCursor>(expr: &Expr, cursor: C) -> String {
    let mut out = String::new();
    match eval_generic::eval_with_cursor_using::<S, C>(expr, cursor) {
        GenericResult::One(v) => push_owned(&mut out, &eval_generic::to_owned(&v)),
        GenericResult::OneCursor(c) => push_owned(&mut out, &eval_generic::to_owned_cursor(&c)),
        GenericResult::Many(vs) => {
            for v in &vs {
                push_owned(&mut out, &eval_generic::to_owned(v));
            }
        }
        GenericResult::ManyCursor(cs) => {
            for c in &cs {
                push_owned(&mut out, &eval_generic::to_owned_cursor(c));
            }
        }
        GenericResult::LazyKeys { .. } => out.push_str("lazy-keys\n"),
        GenericResult::LazyIndexRange(n) => {
            let _ = writeln!(out, "lazy-index-range {n}");
        }
        GenericResult::LazySeq(seq) => match seq.materialize_atomic() {
            Ok(v) => push_owned(&mut out, &v),
            Err(c) => push_control(&mut out, &c),
        },
        GenericResult::None => out.push_str("none\n"),
        GenericResult::Error(e) => {
            let _ = writeln!(out, "error: {e}");
        }
        GenericResult::Owned(v) => push_owned(&mut out, &v),
        GenericResult::ManyOwned(vs) => {
            for v in &vs {
                push_owned(&mut out, v);
            }
        }
        GenericResult::Break(l) => {
            let _ = writeln!(out, "break: {l}");
        }
        GenericResult::Halt(code) => {
            let _ = writeln!(out, "halt: {code}");
        }
        GenericResult::Partial(vs, c) => {
            for v in &vs {
                push_owned(&mut out, v);
            }
            push_control(&mut out, &c);
        }
    }
    out
}

/// Run a closure, turning a panic into part of the answer.
pub fn caught<T>(f: impl FnOnce() -> T) -> Result<T, String> {
    match std::panic::catch_unwind(std::panic::AssertUnwindSafe(f)) {
        Ok(v) => Ok(v),
        Err(_) => {
            let msg = crate::core::take_last_panic().unwrap_or_default();
            let head = msg.split(" @ ").next().unwrap_or("");
            let head = head.split('`').next().unwrap_or("");
            Err(format!("panic:{}", crate::core::normalise(head)))
        }
    }
}
