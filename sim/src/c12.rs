//! C12 — line/column mapping is exact and independent of query history.
//!
//! System under test (REAL): `LineIndex`, and the lazily created `LineIndex`
//! inside `JsonIndex` / `YamlIndex`, shared by several interleaved clients.
//! Reference model: a byte-at-a-time scan, stateless.

use serde::{Deserialize, Serialize};
use serde_json::{json, Value};

use succinctly::json::light::JsonCursor;
use succinctly::json::JsonIndex;
use succinctly::text::LineIndex;
use succinctly::yaml::YamlIndex;

use crate::core::sched::Sched;
use crate::core::{Failure, Fnv, Obs, Rng, Scenario, Tier};

// ------------------------------------------------------------------ model --

pub struct LineModel {
    pub starts: Vec<u64>,
    pub len: u64,
}

impl LineModel {
    pub fn new(text: &[u8]) -> Self {
        let mut starts = vec![0u64];
        let n = text.len();
        let mut i = 0;
        while i < n {
            match text[i] {
                b'\n' => {
                    i += 1;
                    if i < n {
                        starts.push(i as u64);
                    }
                }
                b'\r' => {
                    i += 1;
                    if i < n && text[i] == b'\n' {
                        i += 1;
                    }
                    if i < n {
                        starts.push(i as u64);
                    }
                }
                _ => i += 1,
            }
        }
        Self {
            starts,
            len: n as u64,
        }
    }

    /// 0-based index of the line containing `offset` (last line if past the end).
    pub fn line_of(&self, offset: u64) -> usize {
        self.starts.partition_point(|&s| s <= offset) - 1
    }

    pub fn to_line_column(&self, offset: u64) -> (u64, u64) {
        let idx = self.line_of(offset);
        (idx as u64 + 1, offset - self.starts[idx] + 1)
    }

    pub fn line_start(&self, line: u64) -> Option<u64> {
        if line == 0 {
            return None;
        }
        self.starts.get(usize::try_from(line - 1).ok()?).copied()
    }

    pub fn to_offset(&self, line: u64, column: u64) -> Option<u64> {
        if column == 0 {
            return None;
        }
        let start = self.line_start(line)?;
        let off = start.checked_add(column - 1)?;
        if off < self.len {
            Some(off)
        } else {
            None
        }
    }
}

// ------------------------------------------------------------------- case --

#[derive(Clone, Copy, Debug, Serialize, Deserialize, PartialEq, Eq)]
pub enum Target {
    Line,
    Json,
    Yaml,
}

#[derive(Clone, Debug, Serialize, Deserialize, PartialEq)]
pub enum Ev {
    /// `to_line_column(off)` by client `c` on replica `r`.
    Lc { c: u8, r: u8, off: u64 },
    /// `to_offset(line, col)`.
    Off { c: u8, r: u8, line: u64, col: u64 },
    /// `to_line_column(off)` then `to_offset` of the answer.
    Rt { c: u8, r: u8, off: u64 },
    /// `line_start(line)` (Line target only).
    Ls { c: u8, r: u8, line: u64 },
    /// `line_count()` and `text_len()` (Line target only).
    Count { c: u8, r: u8 },
    /// Json target: `JsonCursor::line()` / `column()` of the `nth` node.
    Node { c: u8, r: u8, nth: u64 },
    /// Json/Yaml target: evaluate program template `t` (arguments `a`, `b`) with the REAL
    /// generic evaluator over replica `r`; the rendered result must equal what a fresh
    /// clone of a never-queried index gives.
    Jq { c: u8, r: u8, t: u8, a: u64, b: u64 },
    /// Fault: drop replica `r` and rebuild it from the text (cache lost).
    Restart { r: u8 },
    /// Fault: clone replica `r` (cache copied); later ops may go to either.
    Fork { r: u8 },
}

impl Ev {
    fn client(&self) -> u8 {
        match self {
            Ev::Lc { c, .. }
            | Ev::Off { c, .. }
            | Ev::Rt { c, .. }
            | Ev::Ls { c, .. }
            | Ev::Count { c, .. }
            | Ev::Jq { c, .. }
            | Ev::Node { c, .. } => *c,
            Ev::Restart { .. } | Ev::Fork { .. } => 250,
        }
    }
}

#[derive(Clone, Debug, Serialize, Deserialize)]
pub struct Case {
    pub target: Target,
    pub policy: String,
    pub text: Vec<u8>,
    pub events: Vec<Ev>,
}

// --------------------------------------------------------- reach counters --

pub const REACH: &[&str] = &[
    "lc_first",            // 0 no previous query on this replica
    "lc_repeat",           // 1 same (clamped) offset as the previous query
    "lc_fwd_same_line",    // 2
    "lc_fwd_1_15_lines",   // 3 resolved by the cached forward walk
    "lc_fwd_16_lines",     // 4 exactly at the walk cap
    "lc_fwd_gt16_lines",   // 5 beyond the cap
    "lc_backward",         // 6
    "lc_past_end",         // 7 offset >= len
    "lc_beyond_u32",       // 8 offset > u32::MAX
    "off_some",            // 9
    "off_none_col_past_line_end_in_text", // 10 lands in a later line (still Some) -- counted as some; kept for mix
    "off_none",            // 11
    "off_huge_column",     // 12 column > 2^32
    "rt_in_bounds",        // 13
    "rt_out_of_bounds",    // 14
    "line_start",          // 15
    "count",               // 16
    "node_lc",             // 17
    "target_line",         // 18
    "target_json",         // 19
    "target_yaml",         // 20
    "yaml_build_failed",   // 21
    "lazy_init_after_fork",// 22 first use of a forked replica whose parent was unused
    "op_on_forked_replica",// 23
    "text_ge_256_lines",   // 24
    "text_crlf",           // 25
    "text_cr_only_break",  // 26
    "text_empty",          // 27
    "jq_eval",             // 28 evaluator-level client ran a line/column program
    "jq_eval_panics_identically_on_fresh_clone", // 29
    "text_wide_low_bits",  // 30 text length / line count >= 512 with >= 257 lines (Elias-Fano low width >= 9)
];
const R_LC_FIRST: usize = 0;
const R_LC_REPEAT: usize = 1;
const R_LC_SAME: usize = 2;
const R_LC_F15: usize = 3;
const R_LC_F16: usize = 4;
const R_LC_FGT: usize = 5;
const R_LC_BACK: usize = 6;
const R_LC_PAST: usize = 7;
const R_LC_U32: usize = 8;
const R_OFF_SOME: usize = 9;
const R_OFF_NONE: usize = 11;
const R_OFF_HUGE: usize = 12;
const R_RT_IN: usize = 13;
const R_RT_OUT: usize = 14;
const R_LS: usize = 15;
const R_COUNT: usize = 16;
const R_NODE: usize = 17;
const R_T_LINE: usize = 18;
const R_T_JSON: usize = 19;
const R_T_YAML: usize = 20;
const R_YAML_FAIL: usize = 21;
const R_LAZY_FORK: usize = 22;
const R_ON_FORK: usize = 23;
const R_BIG: usize = 24;
const R_CRLF: usize = 25;
const R_CR: usize = 26;
const R_EMPTY: usize = 27;
const R_JQ: usize = 28;
const R_JQ_PANIC: usize = 29;
const R_WIDE: usize = 30;

pub const FAULTS: &[&str] = &["restart", "fork", "out_of_range"];
const F_RESTART: usize = 0;
const F_FORK: usize = 1;
const F_OOR: usize = 2;

// ------------------------------------------------------------- generation --

fn gen_line_body(rng: &mut Rng, out: &mut Vec<u8>) {
    let class = rng.weighted(&[20, 15, 25, 20, 15, 1]);
    let n = match class {
        0 => 0,
        1 => 1,
        2 => rng.urange(2, 6),
        3 => rng.urange(10, 30),
        4 => rng.urange(60, 100),
        _ => rng.urange(500, 5000),
    };
    for _ in 0..n {
        out.push(b'a' + rng.below(26) as u8);
    }
}

/// Hundreds of tiny lines plus one enormous line (a minified blob inside a document): the
/// Elias-Fano low width grows (>= 9 bits) while hundreds of line starts share one high
/// bucket across several 256-element select samples.
fn gen_text_blob(rng: &mut Rng) -> Vec<u8> {
    let n_small = rng.urange(257, 1500);
    let blob = (n_small * rng.urange(520, 1100)).min(1_500_000);
    let blob_at = match rng.below(3) {
        0 => 0,
        1 => n_small,
        _ => rng.usize_below(n_small + 1),
    };
    let nl: &[u8] = match rng.below(4) {
        0 => b"\r\n",
        1 => b"\r",
        _ => b"\n",
    };
    let mut text = Vec::with_capacity(blob + n_small * 3 + 8);
    for i in 0..=n_small {
        if i == blob_at {
            text.resize(text.len() + blob, b'x');
            text.extend_from_slice(nl);
        }
        if i < n_small {
            let k = rng.urange(0, 2);
            for _ in 0..k {
                text.push(b'y');
            }
            text.extend_from_slice(nl);
        }
    }
    if rng.chance(1, 2) {
        text.push(b'z');
    }
    text
}

pub fn gen_text(rng: &mut Rng, tier: Tier) -> Vec<u8> {
    if rng.chance(1, 150) {
        return gen_text_blob(rng);
    }
    let shape = rng.weighted(&[3, 4, 4, 25, 20, 12, 12, 8, 6, 2]);
    let n_lines = match shape {
        0 => 0,
        1 => 1,
        2 => 2,
        3 => rng.urange(3, 14),
        4 => rng.urange(14, 40),
        5 => rng.urange(40, 120),
        6 => *rng.pick(&[255usize, 256, 257, 258, 300]),
        7 => *rng.pick(&[511usize, 512, 513, 600]),
        8 => rng.urange(700, 1500),
        _ => {
            if tier == Tier::Thorough {
                rng.urange(2000, 4096)
            } else {
                rng.urange(1500, 2200)
            }
        }
    };
    // terminator style
    let style = rng.below(8);
    let mut text = Vec::new();
    let big = n_lines > 400;
    // Runs of minimal (one-byte) lines: there a line number and a byte offset advance in
    // lock-step, the boundary shape for anything that bounds one by the other.
    let blank_runs = rng.chance(1, 5);
    let mut blank_left = 0usize;
    for i in 0..n_lines {
        if blank_runs && blank_left == 0 && rng.chance(1, 12) {
            blank_left = rng.urange(5, 80);
        }
        if blank_left > 0 {
            blank_left -= 1;
            // an empty body: the line is just its terminator
        } else if big {
            // keep large texts cheap: short bodies
            let n = rng.urange(0, 3);
            for _ in 0..n {
                text.push(b'x');
            }
        } else {
            gen_line_body(rng, &mut text);
        }
        let last = i + 1 == n_lines;
        if last && rng.chance(1, 2) {
            break; // no final terminator
        }
        match style {
            0 | 1 => text.push(b'\n'),
            2 => text.extend_from_slice(b"\r\n"),
            3 => text.push(b'\r'),
            4 => match rng.below(3) {
                0 => text.push(b'\n'),
                1 => text.extend_from_slice(b"\r\n"),
                _ => text.push(b'\r'),
            },
            5 => match rng.below(6) {
                0 => text.extend_from_slice(b"\r\r\n"),
                1 => text.extend_from_slice(b"\n\r"),
                2 => text.extend_from_slice(b"\n\n"),
                3 => text.extend_from_slice(b"\r\n\r\n"),
                4 => text.push(b'\r'),
                _ => text.push(b'\n'),
            },
            6 => {
                // soup: raw bytes from a break-rich alphabet
                let k = rng.urange(1, 4);
                for _ in 0..k {
                    text.push(*rng.pick(&[b'\n', b'\r', b'\n', b'\r', b'a']));
                }
            }
            _ => text.push(b'\n'),
        }
    }
    if n_lines == 0 && rng.chance(1, 2) {
        // a few bytes without any terminator
        let k = rng.urange(0, 5);
        for _ in 0..k {
            text.push(b'z');
        }
    }
    text
}

/// Small JSON document with break-rich whitespace between tokens.
pub fn gen_json_text(rng: &mut Rng) -> Vec<u8> {
    fn ws(rng: &mut Rng, out: &mut Vec<u8>, style: u64) {
        match rng.below(6) {
            0 | 1 => {}
            2 => out.push(b' '),
            _ => match style {
                0 => out.push(b'\n'),
                1 => out.extend_from_slice(b"\r\n"),
                2 => out.push(b'\r'),
                _ => match rng.below(3) {
                    0 => out.push(b'\n'),
                    1 => out.extend_from_slice(b"\r\n"),
                    _ => out.push(b'\r'),
                },
            },
        }
    }
    fn val(rng: &mut Rng, out: &mut Vec<u8>, depth: u32, budget: &mut i32, style: u64) {
        *budget -= 1;
        let kind = if depth > 4 || *budget <= 0 {
            rng.below(4)
        } else {
            rng.below(7)
        };
        match kind {
            0 => out.extend_from_slice(b"1"),
            1 => out.extend_from_slice(b"\"s\""),
            2 => out.extend_from_slice(b"true"),
            3 => out.extend_from_slice(b"null"),
            4 | 5 => {
                out.push(b'[');
                ws(rng, out, style);
                let n = rng.urange(0, 6);
                for i in 0..n {
                    if i > 0 {
                        out.push(b',');
                        ws(rng, out, style);
                    }
                    val(rng, out, depth + 1, budget, style);
                    ws(rng, out, style);
                }
                out.push(b']');
            }
            _ => {
                out.push(b'{');
                ws(rng, out, style);
                let n = rng.urange(0, 5);
                for i in 0..n {
                    if i > 0 {
                        out.push(b',');
                        ws(rng, out, style);
                    }
                    out.extend_from_slice(format!("\"k{i}\"").as_bytes());
                    ws(rng, out, style);
                    out.push(b':');
                    ws(rng, out, style);
                    val(rng, out, depth + 1, budget, style);
                    ws(rng, out, style);
                }
                out.push(b'}');
            }
        }
    }
    let style = rng.below(4);
    let mut out = Vec::new();
    let mut budget = rng.urange(5, 120) as i32;
    ws(rng, &mut out, style);
    val(rng, &mut out, 0, &mut budget, style);
    ws(rng, &mut out, style);
    out
}

/// Small block-style YAML document with LF or CRLF breaks.
pub fn gen_yaml_text(rng: &mut Rng) -> Vec<u8> {
    let crlf = rng.chance(1, 3);
    let nl: &[u8] = if crlf { b"\r\n" } else { b"\n" };
    let mut out = Vec::new();
    let n = rng.urange(1, 60);
    let mut i = 0;
    while i < n {
        match rng.below(6) {
            0 => {
                out.extend_from_slice(format!("k{i}:").as_bytes());
                out.extend_from_slice(nl);
                let m = rng.urange(1, 4);
                for j in 0..m {
                    out.extend_from_slice(format!("  - v{j}").as_bytes());
                    out.extend_from_slice(nl);
                }
            }
            1 => {
                out.extend_from_slice(nl); // blank line
            }
            2 => {
                out.extend_from_slice(b"# c");
                out.extend_from_slice(nl);
            }
            _ => {
                out.extend_from_slice(format!("k{i}: v{i}").as_bytes());
                out.extend_from_slice(nl);
            }
        }
        i += 1;
    }
    if rng.chance(1, 2) {
        out.extend_from_slice(format!("last{n}: end").as_bytes());
    }
    out
}

/// Program templates for the evaluator-level client (jq syntax; the yq parser mode
/// accepts the same text).
pub fn jq_template(t: u8, a: u64, b: u64) -> String {
    match t % 10 {
        0 => "[.[] | line]".into(),
        1 => "[.[] | column]".into(),
        2 => "[.[] | [line, column]]".into(),
        3 => "[.[] | .[]? | line]".into(),
        4 => format!("at_offset({a}) | [line, column]"),
        5 => format!("at_position({a}; {b}) | [line, column]"),
        6 => "[.. | line]".into(),
        7 => "[.[] | column] | reverse".into(),
        8 => format!("[.[] | line], (at_offset({a}) | column)"),
        _ => "[.[][]? | [line, column]]".into(),
    }
}

#[derive(Clone, Copy, Debug)]
enum Kind {
    Walker,
    BackJumper,
    Repeater,
    EdgeProber,
    Reverse,
    RoundTrip,
    Meta,
    NodeWalker,
    JqEval,
}

struct Client {
    kind: Kind,
    rng: Rng,
    pos: u64,
    stride: u8,
    replica: u8,
    node: u64,
}

fn walker_next(cl: &mut Client, m: &LineModel) -> u64 {
    let r = &mut cl.rng;
    let cur_line = m.line_of(cl.pos);
    let n_lines = m.starts.len();
    let stride = if r.chance(1, 6) { r.below(7) as u8 } else { cl.stride };
    let line_len = |l: usize| -> u64 {
        let s = m.starts[l];
        let e = if l + 1 < n_lines { m.starts[l + 1] } else { m.len };
        e.saturating_sub(s)
    };
    let in_line = |r: &mut Rng, l: usize| -> u64 {
        let l = l.min(n_lines - 1);
        let ll = line_len(l);
        m.starts[l] + if ll == 0 { 0 } else { r.below(ll) }
    };
    let next = match stride {
        0 => cl.pos + 1,
        1 => cl.pos + r.range(1, 4),
        2 => in_line(r, cur_line + 1),
        3 => {
            let k = r.urange(2, 15);
            in_line(r, cur_line + k)
        }
        4 => {
            let k = *r.pick(&[15usize, 16, 17, 18]);
            if r.chance(1, 2) {
                // land exactly on the line start
                let l = (cur_line + k).min(n_lines - 1);
                m.starts[l]
            } else {
                in_line(r, cur_line + k)
            }
        }
        5 => {
            let k = r.urange(19, 300);
            in_line(r, cur_line + k)
        }
        _ => {
            // exactly the next line start, or the byte before it
            let l = (cur_line + 1).min(n_lines - 1);
            m.starts[l].saturating_sub(r.below(2))
        }
    };
    let next = if next <= cl.pos { cl.pos + 1 } else { next };
    if next > m.len + 3 {
        // wrap: a backward jump to somewhere early
        cl.pos = if m.len == 0 { 0 } else { r.below(m.len.min(64) + 1) };
    } else {
        cl.pos = next;
    }
    cl.pos
}

fn edge_offset(r: &mut Rng, m: &LineModel) -> u64 {
    match r.below(10) {
        0 => 0,
        1 => m.len.saturating_sub(1),
        2 => m.len,
        3 => m.len + r.range(1, 1000),
        4 => {
            let s = *r.pick(&m.starts);
            s.saturating_sub(1)
        }
        5 => *r.pick(&m.starts),
        6 => *r.pick(&m.starts) + 1,
        7 => (u32::MAX as u64 - 3) + r.below(8),
        8 => (1u64 << 32) + r.below(1 << 20),
        _ => r.range(1 << 33, 1 << 40),
    }
}

fn edge_or_inner(r: &mut Rng, m: &LineModel) -> u64 {
    if m.len == 0 || r.chance(1, 4) {
        edge_offset(r, m).min(1 << 40)
    } else {
        r.below(m.len)
    }
}

fn reverse_args(r: &mut Rng, m: &LineModel) -> (u64, u64) {
    let n = m.starts.len() as u64;
    let line = match r.below(10) {
        0 => 0,
        1 => n + 1,
        2 => n,
        3 => n + r.range(2, 1000),
        4 => 1,
        5 => u64::MAX - r.below(3),
        6 => (1 << 32) + r.below(4),
        _ => r.range(1, n),
    };
    let ll = if line >= 1 && line <= n {
        let l = (line - 1) as usize;
        let s = m.starts[l];
        let e = if l + 1 < m.starts.len() {
            m.starts[l + 1]
        } else {
            m.len
        };
        e - s
    } else {
        5
    };
    let col = match r.below(12) {
        0 => 0,
        1 => 1,
        2 => ll,
        3 => ll + 1,
        4 => ll + 2,
        5 => ll + r.range(2, 200),
        6 => m.len + r.below(3),
        7 => u64::MAX - r.below(4),
        8 => (1u64 << 63) + r.below(4),
        9 => (1u64 << 32) + r.below(4),
        _ => r.range(1, ll.max(1)),
    };
    (line, col)
}

pub struct C12;

impl C12 {
    fn gen_events(rng: &mut Rng, target: Target, text: &[u8], tier: Tier) -> (Vec<Ev>, String) {
        let m = LineModel::new(text);
        let n_clients = rng.weighted(&[30, 30, 25, 15]) + 1;
        let steps_class = rng.weighted(&[30, 45, 20, 5]);
        let cap = match (steps_class, tier) {
            (0, _) => rng.urange(3, 12),
            (1, _) => rng.urange(12, 60),
            (2, _) => rng.urange(60, 150),
            (_, Tier::Quick) => rng.urange(150, 300),
            (_, Tier::Thorough) => rng.urange(150, 400),
        };
        let mut sched = Sched::new(rng, n_clients, cap);
        let fault_rate_den = *rng.pick(&[0u64, 0, 60, 25, 8]); // 0 = fault-free run
        let kinds_line = [
            Kind::Walker,
            Kind::Walker,
            Kind::Walker,
            Kind::BackJumper,
            Kind::Repeater,
            Kind::EdgeProber,
            Kind::Reverse,
            Kind::RoundTrip,
            Kind::Meta,
        ];
        let kinds_json = [
            Kind::Walker,
            Kind::Walker,
            Kind::JqEval,
            Kind::JqEval,
            Kind::NodeWalker,
            Kind::NodeWalker,
            Kind::BackJumper,
            Kind::Repeater,
            Kind::EdgeProber,
            Kind::Reverse,
            Kind::RoundTrip,
        ];
        let kinds_yaml = [
            Kind::Walker,
            Kind::Walker,
            Kind::JqEval,
            Kind::JqEval,
            Kind::BackJumper,
            Kind::Repeater,
            Kind::EdgeProber,
            Kind::Reverse,
            Kind::RoundTrip,
        ];
        let mut clients: Vec<Client> = (0..n_clients)
            .map(|_| {
                let kind = match target {
                    Target::Line => *rng.pick(&kinds_line),
                    Target::Json => *rng.pick(&kinds_json),
                    Target::Yaml => *rng.pick(&kinds_yaml),
                };
                let mut crng = rng.fork();
                let pos = if crng.chance(1, 2) || m.len == 0 {
                    0
                } else {
                    crng.below(m.len)
                };
                Client {
                    kind,
                    stride: crng.below(7) as u8,
                    rng: crng,
                    pos,
                    replica: 0,
                    node: 0,
                }
            })
            .collect();

        let mut events = Vec::with_capacity(cap + 4);
        let mut replicas = 1u8;
        let mut last_global: u64 = 0;
        for _ in 0..cap {
            if fault_rate_den > 0 && rng.below(fault_rate_den) == 0 {
                let r = rng.below(replicas as u64) as u8;
                if replicas < 3 && rng.chance(1, 2) {
                    events.push(Ev::Fork { r });
                    replicas += 1;
                } else {
                    events.push(Ev::Restart { r });
                }
            }
            let ci = sched.pick(rng);
            let cl = &mut clients[ci];
            // a client mostly sticks to its replica
            if replicas > 1 && cl.rng.chance(1, 5) {
                cl.replica = cl.rng.below(replicas as u64) as u8;
            }
            let c = ci as u8;
            let r = cl.replica;
            let ev = match cl.kind {
                Kind::Walker => Ev::Lc {
                    c,
                    r,
                    off: walker_next(cl, &m),
                },
                Kind::BackJumper => {
                    let hi = last_global.min(m.len + 2);
                    let off = if hi == 0 { 0 } else { cl.rng.below(hi + 1) };
                    Ev::Lc { c, r, off }
                }
                Kind::Repeater => {
                    let off = match cl.rng.below(8) {
                        0 => last_global.saturating_add(1),
                        1 => last_global.saturating_sub(1),
                        _ => last_global,
                    };
                    Ev::Lc { c, r, off }
                }
                Kind::EdgeProber => Ev::Lc {
                    c,
                    r,
                    off: edge_offset(&mut cl.rng, &m),
                },
                Kind::Reverse => {
                    let (line, col) = reverse_args(&mut cl.rng, &m);
                    Ev::Off { c, r, line, col }
                }
                Kind::RoundTrip => {
                    let off = if cl.rng.chance(1, 5) {
                        edge_offset(&mut cl.rng, &m)
                    } else if cl.rng.chance(1, 2) {
                        walker_next(cl, &m)
                    } else if m.len == 0 {
                        0
                    } else {
                        cl.rng.below(m.len)
                    };
                    Ev::Rt { c, r, off }
                }
                Kind::Meta => {
                    if cl.rng.chance(1, 4) {
                        Ev::Count { c, r }
                    } else {
                        let n = m.starts.len() as u64;
                        let line = match cl.rng.below(6) {
                            0 => 0,
                            1 => n,
                            2 => n + 1,
                            3 => u64::MAX,
                            _ => cl.rng.range(1, n),
                        };
                        Ev::Ls { c, r, line }
                    }
                }
                Kind::JqEval => {
                    let t = cl.rng.below(10) as u8;
                    let (a, b) = if t % 10 == 5 {
                        let (l, col) = reverse_args(&mut cl.rng, &m);
                        (l.min(1 << 40), col.min(1 << 40))
                    } else {
                        (edge_or_inner(&mut cl.rng, &m), 0)
                    };
                    Ev::Jq { c, r, t, a, b }
                }
                Kind::NodeWalker => {
                    let nth = if cl.rng.chance(1, 8) {
                        cl.node = cl.rng.below(64);
                        cl.node
                    } else {
                        cl.node += 1;
                        cl.node
                    };
                    Ev::Node { c, r, nth }
                }
            };
            match &ev {
                Ev::Lc { off, .. } | Ev::Rt { off, .. } => last_global = *off,
                _ => {}
            }
            events.push(ev);
        }
        (events, sched.name().to_string())
    }
}

// -------------------------------------------------------------- execution --

enum Replica {
    Line(LineIndex),
    Json(Box<JsonIndex>),
    Yaml(Box<YamlIndex>),
}

impl Replica {
    fn build(target: Target, text: &[u8]) -> (Self, bool) {
        match target {
            Target::Line => (Replica::Line(LineIndex::build(text)), false),
            Target::Json => (Replica::Json(Box::new(JsonIndex::build(text))), false),
            Target::Yaml => match YamlIndex::build(text) {
                Ok(ix) => (Replica::Yaml(Box::new(ix)), false),
                Err(_) => (Replica::Line(LineIndex::build(text)), true),
            },
        }
    }
    fn fork(&self) -> Self {
        match self {
            Replica::Line(l) => Replica::Line(l.clone()),
            Replica::Json(j) => Replica::Json(j.clone()),
            Replica::Yaml(y) => Replica::Yaml(y.clone()),
        }
    }
    #[inline]
    fn lc(&self, off: usize, text: &[u8]) -> (usize, usize) {
        match self {
            Replica::Line(l) => l.to_line_column(off),
            Replica::Json(j) => j.to_line_column(off, text),
            Replica::Yaml(y) => y.to_line_column(off, text),
        }
    }
    #[inline]
    fn off(&self, line: usize, col: usize, text: &[u8]) -> Option<usize> {
        match self {
            Replica::Line(l) => l.to_offset(line, col),
            Replica::Json(j) => j.to_offset(line, col, text),
            Replica::Yaml(y) => y.to_offset(line, col, text),
        }
    }
}

/// What the harness knows about a replica for the reach probes (never used
/// by the oracle).
#[derive(Clone, Copy, Default)]
struct Shadow {
    last: Option<(u64, usize)>, // last clamped query offset and its line
    used: bool,
    forked: bool,
    parent_unused_at_fork: bool,
}

fn mismatch(kind: &str, seq: usize, ev: &Ev, got: Value, want: Value) -> Failure {
    Failure {
        class: format!("mismatch:{kind}"),
        seq,
        detail: json!({ "op": serde_json::to_value(ev).unwrap_or(Value::Null), "got": got, "want": want }),
    }
}

impl Scenario for C12 {
    type Case = Case;

    fn property(&self) -> &'static str {
        "C12"
    }
    fn engine(&self) -> &'static str {
        "histsim/c12"
    }
    fn reach_names(&self) -> &'static [&'static str] {
        REACH
    }
    fn fault_names(&self) -> &'static [&'static str] {
        FAULTS
    }
    fn required_reach(&self) -> &'static [&'static str] {
        &[
            "lc_first",
            "lc_repeat",
            "lc_fwd_same_line",
            "lc_fwd_1_15_lines",
            "lc_fwd_16_lines",
            "lc_fwd_gt16_lines",
            "lc_backward",
            "lc_past_end",
            "lc_beyond_u32",
            "off_some",
            "off_none",
            "off_huge_column",
            "rt_in_bounds",
            "rt_out_of_bounds",
            "line_start",
            "count",
            "node_lc",
            "target_line",
            "target_json",
            "target_yaml",
            "lazy_init_after_fork",
            "op_on_forked_replica",
            "text_ge_256_lines",
            "text_crlf",
            "text_cr_only_break",
            "text_empty",
            "jq_eval",
            "text_wide_low_bits",
        ]
    }

    fn generate(&self, rng: &mut Rng, tier: Tier) -> Case {
        let target = match rng.weighted(&[70, 18, 12]) {
            0 => Target::Line,
            1 => Target::Json,
            _ => Target::Yaml,
        };
        let text = match target {
            Target::Line => gen_text(rng, tier),
            Target::Json => gen_json_text(rng),
            Target::Yaml => gen_yaml_text(rng),
        };
        let (events, policy) = Self::gen_events(rng, target, &text, tier);
        Case {
            target,
            policy,
            text,
            events,
        }
    }

    fn execute(&self, case: &Case, obs: &mut Obs) -> Result<(), Failure> {
        let text = &case.text[..];
        let m = LineModel::new(text);
        match case.target {
            Target::Line => obs.reach.hit(R_T_LINE),
            Target::Json => obs.reach.hit(R_T_JSON),
            Target::Yaml => obs.reach.hit(R_T_YAML),
        }
        if m.starts.len() >= 256 {
            obs.reach.hit(R_BIG);
        }
        if m.starts.len() >= 257 && m.len / m.starts.len() as u64 >= 512 {
            obs.reach.hit(R_WIDE);
        }
        if text.is_empty() {
            obs.reach.hit(R_EMPTY);
        }
        if text.windows(2).any(|w| w == b"\r\n") {
            obs.reach.hit(R_CRLF);
        }
        if text
            .iter()
            .enumerate()
            .any(|(i, &b)| b == b'\r' && text.get(i + 1) != Some(&b'\n'))
        {
            obs.reach.hit(R_CR);
        }

        let (first, failed) = Replica::build(case.target, text);
        if failed {
            obs.reach.hit(R_YAML_FAIL);
        }
        let mut replicas: Vec<Replica> = vec![first];
        let mut shadows: Vec<Shadow> = vec![Shadow::default()];
        let mut json_opens: Option<Vec<usize>> = None;
        let mut pristine: Option<Replica> = None;

        for (seq, ev) in case.events.iter().enumerate() {
            obs.step(ev.client());
            let pick = |r: u8, n: usize| (r as usize) % n;
            match ev {
                Ev::Restart { r } => {
                    let i = pick(*r, replicas.len());
                    replicas[i] = Replica::build(case.target, text).0;
                    shadows[i] = Shadow::default();
                    obs.faults.hit(F_RESTART);
                }
                Ev::Fork { r } => {
                    if replicas.len() < 4 {
                        let i = pick(*r, replicas.len());
                        let copy = replicas[i].fork();
                        replicas.push(copy);
                        let mut sh = shadows[i];
                        sh.forked = true;
                        sh.parent_unused_at_fork = !shadows[i].used;
                        shadows.push(sh);
                        obs.faults.hit(F_FORK);
                    }
                }
                Ev::Lc { r, off, .. } => {
                    let i = pick(*r, replicas.len());
                    note_use(obs, &mut shadows[i]);
                    classify_lc(obs, &m, &mut shadows[i], *off);
                    let got = replicas[i].lc(*off as usize, text);
                    let want = m.to_line_column(*off);
                    if (got.0 as u64, got.1 as u64) != want {
                        return Err(mismatch(
                            "to_line_column",
                            seq,
                            ev,
                            json!([got.0, got.1]),
                            json!([want.0, want.1]),
                        ));
                    }
                }
                Ev::Off { r, line, col, .. } => {
                    let i = pick(*r, replicas.len());
                    note_use(obs, &mut shadows[i]);
                    let got = replicas[i].off(*line as usize, *col as usize, text);
                    let want = m.to_offset(*line, *col);
                    if *col > (1 << 32) {
                        obs.reach.hit(R_OFF_HUGE);
                        obs.faults.hit(F_OOR);
                    }
                    if want.is_some() {
                        obs.reach.hit(R_OFF_SOME);
                    } else {
                        obs.reach.hit(R_OFF_NONE);
                    }
                    if got.map(|x| x as u64) != want {
                        return Err(mismatch("to_offset", seq, ev, json!(got), json!(want)));
                    }
                }
                Ev::Rt { r, off, .. } => {
                    let i = pick(*r, replicas.len());
                    note_use(obs, &mut shadows[i]);
                    classify_lc(obs, &m, &mut shadows[i], *off);
                    let (l, c) = replicas[i].lc(*off as usize, text);
                    let want = m.to_line_column(*off);
                    if (l as u64, c as u64) != want {
                        return Err(mismatch(
                            "to_line_column",
                            seq,
                            ev,
                            json!([l, c]),
                            json!([want.0, want.1]),
                        ));
                    }
                    let back = replicas[i].off(l, c, text);
                    let want_back = if *off < m.len { Some(*off) } else { None };
                    if *off < m.len {
                        obs.reach.hit(R_RT_IN);
                    } else {
                        obs.reach.hit(R_RT_OUT);
                    }
                    if back.map(|x| x as u64) != want_back {
                        return Err(mismatch(
                            "round_trip",
                            seq,
                            ev,
                            json!(back),
                            json!(want_back),
                        ));
                    }
                }
                Ev::Ls { r, line, .. } => {
                    let i = pick(*r, replicas.len());
                    if let Replica::Line(ix) = &replicas[i] {
                        obs.reach.hit(R_LS);
                        let got = ix.line_start(*line as usize);
                        let want = m.line_start(*line);
                        if got.map(|x| x as u64) != want {
                            return Err(mismatch("line_start", seq, ev, json!(got), json!(want)));
                        }
                    }
                }
                Ev::Count { r, .. } => {
                    let i = pick(*r, replicas.len());
                    if let Replica::Line(ix) = &replicas[i] {
                        obs.reach.hit(R_COUNT);
                        let got = (ix.line_count(), ix.text_len());
                        let want = (m.starts.len(), m.len as usize);
                        if got != want {
                            return Err(mismatch(
                                "line_count",
                                seq,
                                ev,
                                json!([got.0, got.1]),
                                json!([want.0, want.1]),
                            ));
                        }
                    }
                }
                Ev::Jq { r, t, a, b, .. } => {
                    let i = pick(*r, replicas.len());
                    let prog = jq_template(*t, *a, *b);
                    let run = |rep: &Replica| -> Option<Result<String, String>> {
                        match rep {
                            Replica::Json(ix) => {
                                let expr = succinctly::jq::parse(&prog).ok()?;
                                Some(crate::jqrun::caught(|| {
                                    crate::jqrun::eval_to_string::<succinctly::jq::JqSemantics, _>(&expr, ix.root(text))
                                }))
                            }
                            Replica::Yaml(ix) => {
                                let expr = succinctly::jq::parse_with_mode(&prog, succinctly::jq::ParserMode::Yq).ok()?;
                                Some(crate::jqrun::caught(|| {
                                    crate::jqrun::eval_to_string::<succinctly::jq::YqSemantics, _>(&expr, ix.root(text))
                                }))
                            }
                            Replica::Line(_) => None,
                        }
                    };
                    if !matches!(replicas[i], Replica::Line(_)) {
                        let p = pristine.get_or_insert_with(|| Replica::build(case.target, text).0);
                        let fresh = p.fork();
                        if let (Some(got), Some(want)) = (run(&replicas[i]), run(&fresh)) {
                            note_use(obs, &mut shadows[i]);
                            obs.reach.hit(R_JQ);
                            if got.is_err() {
                                obs.reach.hit(R_JQ_PANIC);
                            }
                            // the evaluator asked an unknown number of offsets: the harness no
                            // longer knows the last query of this replica
                            shadows[i].last = None;
                            if got != want {
                                return Err(mismatch("jq_line_column_program", seq, ev, json!({"program": prog, "result": got}), json!({"program": prog, "result": want})));
                            }
                        }
                    }
                }
                Ev::Node { r, nth, .. } => {
                    let i = pick(*r, replicas.len());
                    if let Replica::Json(ix) = &replicas[i] {
                        let opens = json_opens.get_or_insert_with(|| {
                            let bp = ix.bp();
                            (0..bp.len()).filter(|&p| bp.is_open(p)).collect::<Vec<usize>>()
                        });
                        if !opens.is_empty() {
                            let bp_pos = opens[(*nth as usize) % opens.len()];
                            let cur = JsonCursor::from_bp_position(ix, text, bp_pos);
                            let off = cur.text_position().unwrap_or(0) as u64;
                            note_use(obs, &mut shadows[i]);
                            obs.reach.hit(R_NODE);
                            classify_lc(obs, &m, &mut shadows[i], off);
                            let got_l = cur.line();
                            // column() asks the same offset again: the
                            // exact-repeat route.
                            let got_c = cur.column();
                            let want = m.to_line_column(off);
                            if (got_l as u64, got_c as u64) != want {
                                return Err(mismatch(
                                    "node_line_column",
                                    seq,
                                    ev,
                                    json!([got_l, got_c]),
                                    json!([want.0, want.1]),
                                ));
                            }
                        }
                    }
                }
            }
        }
        Ok(())
    }

    fn nontrivial(&self, _case: &Case, obs: &Obs) -> bool {
        let clients = (obs.clients_seen & 0x00ff_ffff).count_ones();
        let faults: u64 = obs.faults.v[F_RESTART] + obs.faults.v[F_FORK];
        let classes = obs.reach.v[..=R_LC_U32].iter().filter(|&&x| x > 0).count()
            + usize::from(obs.reach.v[R_OFF_SOME] > 0)
            + usize::from(obs.reach.v[R_OFF_NONE] > 0);
        (clients >= 2 || faults >= 1) && classes >= 3
    }

    fn n_events(&self, case: &Case) -> usize {
        case.events.len()
    }

    fn keep_events(&self, case: &Case, keep: &[bool]) -> Case {
        let mut c = case.clone();
        c.events = case
            .events
            .iter()
            .zip(keep)
            .filter(|(_, k)| **k)
            .map(|(e, _)| e.clone())
            .collect();
        c
    }

    fn simplifications(&self, case: &Case) -> Vec<Case> {
        let mut out = Vec::new();
        // collapse clients / replicas
        if case.events.iter().any(|e| e.client() != 0 && e.client() != 250) {
            let mut c = case.clone();
            for e in &mut c.events {
                match e {
                    Ev::Lc { c, .. }
                    | Ev::Off { c, .. }
                    | Ev::Rt { c, .. }
                    | Ev::Ls { c, .. }
                    | Ev::Count { c, .. }
                    | Ev::Jq { c, .. }
                    | Ev::Node { c, .. } => *c = 0,
                    _ => {}
                }
            }
            out.push(c);
        }
        // Line target instead of Json/Yaml
        if case.target != Target::Line {
            let mut c = case.clone();
            c.target = Target::Line;
            out.push(c);
        }
        // Rt -> Lc
        for (i, e) in case.events.iter().enumerate() {
            if let Ev::Rt { c, r, off } = e {
                let mut cc = case.clone();
                cc.events[i] = Ev::Lc {
                    c: *c,
                    r: *r,
                    off: *off,
                };
                out.push(cc);
            }
        }
        // shrink text: drop the tail, drop the head (shifting offsets), drop a middle line
        let n = case.text.len();
        if n > 0 {
            for cut in [n / 2, n - n / 4, n - 1] {
                if cut < n {
                    let mut c = case.clone();
                    c.text.truncate(cut);
                    out.push(c);
                }
            }
            let m = LineModel::new(&case.text);
            // remove one whole line (not the first) and shift offsets after it
            let nl = m.starts.len();
            let mut cands: Vec<usize> = Vec::new();
            if nl > 1 {
                cands.push(nl / 2);
                cands.push(1);
                cands.push(nl - 1);
            }
            for l in cands {
                let s = m.starts[l] as usize;
                let e = if l + 1 < nl { m.starts[l + 1] as usize } else { n };
                if e > s {
                    let mut c = case.clone();
                    c.text.drain(s..e);
                    let d = (e - s) as u64;
                    for ev in &mut c.events {
                        match ev {
                            Ev::Lc { off, .. } | Ev::Rt { off, .. } => {
                                if *off >= e as u64 && *off < (1 << 31) {
                                    *off -= d;
                                }
                            }
                            Ev::Off { line, .. } | Ev::Ls { line, .. } => {
                                // 1-based line numbers after the removed line shift down
                                if *line > l as u64 + 1 && *line < (1 << 31) {
                                    *line -= 1;
                                }
                            }
                            _ => {}
                        }
                    }
                    out.push(c);
                }
            }
            // shorten line bodies: remove one non-break byte
            if let Some(p) = case.text.iter().position(|&b| b != b'\n' && b != b'\r') {
                let mut c = case.clone();
                c.text.remove(p);
                out.push(c);
            }
        }
        // shrink numeric arguments
        for (i, e) in case.events.iter().enumerate() {
            match e {
                Ev::Lc { c, r, off } if *off > 0 => {
                    for cand in [*off / 2, *off - 1] {
                        let mut cc = case.clone();
                        cc.events[i] = Ev::Lc {
                            c: *c,
                            r: *r,
                            off: cand,
                        };
                        out.push(cc);
                    }
                }
                Ev::Off { c, r, line, col } => {
                    if *col > (1 << 40) && *col != u64::MAX {
                        let mut cc = case.clone();
                        cc.events[i] = Ev::Off {
                            c: *c,
                            r: *r,
                            line: *line,
                            col: u64::MAX,
                        };
                        out.push(cc);
                    }
                    if *col > 1 {
                        for cand in [*col / 2, *col - 1] {
                            let mut cc = case.clone();
                            cc.events[i] = Ev::Off {
                                c: *c,
                                r: *r,
                                line: *line,
                                col: cand,
                            };
                            out.push(cc);
                        }
                    }
                    if *line > 1 {
                        for cand in [*line / 2, *line - 1] {
                            let mut cc = case.clone();
                            cc.events[i] = Ev::Off {
                                c: *c,
                                r: *r,
                                line: cand,
                                col: *col,
                            };
                            out.push(cc);
                        }
                    }
                }
                _ => {}
            }
        }
        out
    }

    fn fingerprint(&self, case: &Case) -> (u64, u64) {
        let mut d = Fnv::default();
        d.u64(case.target as u64);
        d.bytes(&case.text);
        let mut s = Fnv::default();
        for e in &case.events {
            match e {
                Ev::Lc { c, r, off } => {
                    s.u64(1);
                    s.u64(*c as u64);
                    s.u64(*r as u64);
                    s.u64(*off);
                }
                Ev::Off { c, r, line, col } => {
                    s.u64(2);
                    s.u64(*c as u64);
                    s.u64(*r as u64);
                    s.u64(*line);
                    s.u64(*col);
                }
                Ev::Rt { c, r, off } => {
                    s.u64(3);
                    s.u64(*c as u64);
                    s.u64(*r as u64);
                    s.u64(*off);
                }
                Ev::Ls { c, r, line } => {
                    s.u64(4);
                    s.u64(*c as u64);
                    s.u64(*r as u64);
                    s.u64(*line);
                }
                Ev::Count { c, r } => {
                    s.u64(5);
                    s.u64(*c as u64);
                    s.u64(*r as u64);
                }
                Ev::Node { c, r, nth } => {
                    s.u64(6);
                    s.u64(*c as u64);
                    s.u64(*r as u64);
                    s.u64(*nth);
                }
                Ev::Jq { c, r, t, a, b } => {
                    s.u64(9);
                    s.u64(*c as u64);
                    s.u64(*r as u64);
                    s.u64(*t as u64);
                    s.u64(*a);
                    s.u64(*b);
                }
                Ev::Restart { r } => {
                    s.u64(7);
                    s.u64(*r as u64);
                }
                Ev::Fork { r } => {
                    s.u64(8);
                    s.u64(*r as u64);
                }
            }
        }
        (d.0, s.0)
    }

    fn sample(&self, case: &Case) -> Value {
        let text = String::from_utf8_lossy(&case.text);
        let shown: String = text.chars().take(120).collect();
        json!({
            "target": case.target,
            "policy": case.policy,
            "text_len": case.text.len(),
            "text_prefix": shown,
            "n_events": case.events.len(),
            "events_prefix": case.events.iter().take(12).collect::<Vec<_>>(),
        })
    }

    fn rule(&self) -> String {
        "Each run draws from one PRNG: a text (0..4096 lines, LF/CR/CRLF/mixed, with and without final terminator), a target \
         (LineIndex | JsonIndex | YamlIndex), 1-4 cooperative clients (walker with strides around the 16-line walk cap, back-jumper, \
         repeater, edge-prober, reverse mapper, round-tripper, meta, JSON node walker), a scheduling policy (single | uniform | bursty | pct) \
         and a fault rate (restart = rebuild from text, fork = clone with the cache copied). A run is non-trivial when (>= 2 clients acted or \
         >= 1 restart/fork fired) and >= 3 distinct access classes (first/repeat/forward-same-line/forward<=15/forward=16/forward>16/backward/past-end/beyond-u32/\
         to_offset-some/to_offset-none) were exercised. distinct_nontrivial is the number of set bits in a one-hash bit table keyed by \
         hash(data) x hash(event list) over non-trivial runs: a lower bound on distinct (data, schedule) pairs."
            .into()
    }

    fn real_vs_stub(&self) -> Value {
        json!({
            "real": ["succinctly::text::LineIndex::{build,to_line_column,to_offset,line_start,line_count,text_len,clone}",
                     "succinctly::bits::EliasFano::{build,get,predecessor} (through LineIndex)",
                     "succinctly::json::JsonIndex::{build,to_line_column,to_offset,clone} and JsonCursor::{from_bp_position,text_position,line,column}",
                     "succinctly::yaml::YamlIndex::{build,to_line_column,to_offset,clone}"],
            "stub": ["callers of the index (jq `line`/`column`/`at_position` builtins, locate CLIs) are replaced by simulated clients"],
            "model": "byte-at-a-time line-start scan + partition_point, stateless"
        })
    }

    fn assumptions(&self) -> Vec<String> {
        vec![
            "texts < 4 GiB (documented LineIndex limit); offsets up to 2^40".into(),
            "LineIndex / JsonIndex / YamlIndex are !Sync (checked at build time), so every history is a sequential interleaving of client steps".into(),
            "the reference model (naive scan) is correct".into(),
        ]
    }
}

#[inline]
fn note_use(obs: &mut Obs, sh: &mut Shadow) {
    if sh.forked {
        obs.reach.hit(R_ON_FORK);
        if !sh.used && sh.parent_unused_at_fork {
            obs.reach.hit(R_LAZY_FORK);
        }
    }
    sh.used = true;
}

fn classify_lc(obs: &mut Obs, m: &LineModel, sh: &mut Shadow, off: u64) {
    let q = off.min(u32::MAX as u64);
    let line = m.line_of(q);
    if off >= m.len {
        obs.reach.hit(R_LC_PAST);
        obs.faults.hit(F_OOR);
    }
    if off > u32::MAX as u64 {
        obs.reach.hit(R_LC_U32);
    }
    match sh.last {
        None => obs.reach.hit(R_LC_FIRST),
        Some((pq, pl)) => {
            if q == pq {
                obs.reach.hit(R_LC_REPEAT);
            } else if q < pq {
                obs.reach.hit(R_LC_BACK);
            } else {
                let d = line - pl;
                if d == 0 {
                    obs.reach.hit(R_LC_SAME);
                } else if d <= 15 {
                    obs.reach.hit(R_LC_F15);
                } else if d == 16 {
                    obs.reach.hit(R_LC_F16);
                } else {
                    obs.reach.hit(R_LC_FGT);
                }
            }
        }
    }
    sh.last = Some((q, line));
}
