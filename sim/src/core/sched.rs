//! Cooperative-task scheduler: decides which client performs its next
//! operation. All choices come from the run's PRNG.

use super::rng::Rng;

#[derive(Clone, Debug)]
pub enum Policy {
    /// One client only: a pure sequential history.
    Single,
    /// Uniform random choice at every step.
    Uniform,
    /// The running client keeps the processor for a burst of `b` steps.
    Bursty(u32),
    /// PCT-like: fixed random priorities, highest runs; at `d` seeded change
    /// points the running client's priority drops below all others.
    Pct { prio: Vec<u32>, change_points: Vec<usize> },
}

pub struct Sched {
    pub policy: Policy,
    n: usize,
    cur: usize,
    burst_left: u32,
    step: usize,
}

impl Sched {
    pub fn new(rng: &mut Rng, n_clients: usize, max_steps: usize) -> Self {
        let policy = if n_clients <= 1 {
            Policy::Single
        } else {
            match rng.below(10) {
                0..=2 => Policy::Uniform,
                3..=6 => Policy::Bursty(*rng.pick(&[2, 3, 5, 20, 100])),
                _ => {
                    let mut prio: Vec<u32> = (0..n_clients as u32).map(|i| i + 10).collect();
                    // Fisher-Yates
                    for i in (1..prio.len()).rev() {
                        let j = rng.usize_below(i + 1);
                        prio.swap(i, j);
                    }
                    let d = rng.urange(1, 3);
                    let mut cps: Vec<usize> =
                        (0..d).map(|_| rng.usize_below(max_steps.max(1))).collect();
                    cps.sort_unstable();
                    Policy::Pct {
                        prio,
                        change_points: cps,
                    }
                }
            }
        };
        Self {
            policy,
            n: n_clients.max(1),
            cur: 0,
            burst_left: 0,
            step: 0,
        }
    }

    pub fn name(&self) -> &'static str {
        match self.policy {
            Policy::Single => "single",
            Policy::Uniform => "uniform",
            Policy::Bursty(_) => "bursty",
            Policy::Pct { .. } => "pct",
        }
    }

    pub fn pick(&mut self, rng: &mut Rng) -> usize {
        let step = self.step;
        self.step += 1;
        match &mut self.policy {
            Policy::Single => 0,
            Policy::Uniform => rng.usize_below(self.n),
            Policy::Bursty(b) => {
                if self.burst_left == 0 {
                    self.cur = rng.usize_below(self.n);
                    // burst length jitters around b
                    self.burst_left = 1 + rng.below(*b as u64 * 2) as u32;
                }
                self.burst_left -= 1;
                self.cur
            }
            Policy::Pct {
                prio,
                change_points,
            } => {
                let top = (0..prio.len()).max_by_key(|&i| prio[i]).unwrap_or(0);
                if change_points.contains(&step) {
                    let low = prio.iter().copied().min().unwrap_or(1);
                    prio[top] = low.saturating_sub(1);
                }
                (0..prio.len()).max_by_key(|&i| prio[i]).unwrap_or(0)
            }
        }
    }
}
