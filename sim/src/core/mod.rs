//! Simulation core: scenario trait, seeded parallel exploration, minimisation,
//! replay files, known-finding matching and evidence.

pub mod rng;
pub mod sched;

use std::collections::BTreeMap;
use std::panic::{catch_unwind, AssertUnwindSafe};
use std::sync::atomic::{AtomicU64, Ordering};
use std::sync::Mutex;
use std::time::Instant;

use serde::{Deserialize, Serialize};
use serde_json::{json, Value};

pub use rng::{fnv1a, run_seed, Fnv, Rng};

pub const DEFAULT_SEED: u64 = 20_260_921;

#[derive(Clone, Copy, Debug, PartialEq, Eq)]
pub enum Tier {
    Quick,
    Thorough,
}

impl Tier {
    pub fn name(self) -> &'static str {
        match self {
            Tier::Quick => "quick",
            Tier::Thorough => "thorough",
        }
    }
}

/// What went wrong in one simulated run.
#[derive(Clone, Debug, Serialize, Deserialize, PartialEq)]
pub struct Failure {
    /// Violation class: `mismatch:<operation kind>` or `panic:<normalised message>`.
    /// Minimisation keeps the class fixed.
    pub class: String,
    /// Global event sequence number at which the invariant broke.
    pub seq: usize,
    /// `{op, got, want}` or panic text.
    pub detail: Value,
}

/// Named counters. Index constants are owned by each scenario.
#[derive(Clone, Debug)]
pub struct Counters {
    pub names: &'static [&'static str],
    pub v: Vec<u64>,
}

impl Counters {
    pub fn new(names: &'static [&'static str]) -> Self {
        Self {
            names,
            v: vec![0; names.len()],
        }
    }
    #[inline]
    pub fn hit(&mut self, i: usize) {
        self.v[i] += 1;
    }
    #[inline]
    pub fn add(&mut self, i: usize, n: u64) {
        self.v[i] += n;
    }
    pub fn merge(&mut self, o: &Counters) {
        for (a, b) in self.v.iter_mut().zip(&o.v) {
            *a += *b;
        }
    }
    pub fn to_json(&self) -> Value {
        let mut m = serde_json::Map::new();
        for (n, v) in self.names.iter().zip(&self.v) {
            m.insert((*n).to_string(), json!(v));
        }
        Value::Object(m)
    }
    pub fn distinct_nonzero(&self) -> usize {
        self.v.iter().filter(|&&x| x > 0).count()
    }
}

/// Per-run observations: reach probes and fired faults, measured by the
/// harness from the *model's* knowledge, never fed back into the oracle.
pub struct Obs {
    pub reach: Counters,
    pub faults: Counters,
    pub ops: u64,
    /// Hash of the client-id sequence (the interleaving).
    pub interleaving: Fnv,
    pub clients_seen: u32,
}

impl Obs {
    pub fn new(reach: &'static [&'static str], faults: &'static [&'static str]) -> Self {
        Self {
            reach: Counters::new(reach),
            faults: Counters::new(faults),
            ops: 0,
            interleaving: Fnv::default(),
            clients_seen: 0,
        }
    }
    #[inline]
    pub fn step(&mut self, client: u8) {
        self.ops += 1;
        self.interleaving.u64(client as u64);
        self.clients_seen |= 1 << (client & 31);
    }
}

pub trait Scenario: Sync {
    type Case: Clone + Send + Sync + Serialize + for<'de> Deserialize<'de>;

    fn property(&self) -> &'static str;
    fn engine(&self) -> &'static str;
    fn reach_names(&self) -> &'static [&'static str];
    fn fault_names(&self) -> &'static [&'static str];
    /// Reach probes that must be non-zero for the evidence self-check.
    fn required_reach(&self) -> &'static [&'static str] {
        self.reach_names()
    }

    /// Draw one case (explicit data + explicit event list) from `rng`.
    fn generate(&self, rng: &mut Rng, tier: Tier) -> Self::Case;

    /// Run the case against the REAL code and the reference model.
    fn execute(&self, case: &Self::Case, obs: &mut Obs) -> Result<(), Failure>;

    /// Every failure of the case (default: the single one `execute` reports).
    /// Used to decide which known findings still reproduce.
    fn all_failures(&self, case: &Self::Case) -> Vec<Failure> {
        let mut obs = Obs::new(self.reach_names(), self.fault_names());
        match catch_unwind(AssertUnwindSafe(|| self.execute(case, &mut obs))) {
            Ok(Ok(())) => Vec::new(),
            Ok(Err(f)) => vec![f],
            Err(_) => {
                let msg = take_last_panic().unwrap_or_else(|| "<unknown panic>".into());
                let head = msg.split(" @ ").next().unwrap_or("").to_string();
                vec![Failure {
                    class: format!("panic:{}", normalise(&head)),
                    seq: obs.ops as usize,
                    detail: json!({ "panic": msg }),
                }]
            }
        }
    }

    /// Whether a run counts as non-trivial for `distinct_nontrivial`.
    fn nontrivial(&self, case: &Self::Case, obs: &Obs) -> bool;

    fn n_events(&self, case: &Self::Case) -> usize;
    fn keep_events(&self, case: &Self::Case, keep: &[bool]) -> Self::Case;
    /// Smaller variants of the data / arguments (each strictly "simpler").
    fn simplifications(&self, case: &Self::Case) -> Vec<Self::Case>;
    /// Stable hash of data and of the schedule (events), for distinct counts.
    fn fingerprint(&self, case: &Self::Case) -> (u64, u64);
    /// Human-readable rendering for evidence samples.
    fn sample(&self, case: &Self::Case) -> Value;
    fn rule(&self) -> String;
    /// Extra keys merged into `coverage` (e.g. `exhaustive`).
    fn extra_coverage(&self) -> Value {
        json!({})
    }
    fn real_vs_stub(&self) -> Value;
    fn assumptions(&self) -> Vec<String>;
}

// ---------------------------------------------------------------------------
// Panic capture
// ---------------------------------------------------------------------------

thread_local! {
    static LAST_PANIC: std::cell::RefCell<Option<String>> = const { std::cell::RefCell::new(None) };
}

pub fn install_quiet_panic_hook() {
    std::panic::set_hook(Box::new(|info| {
        let msg = if let Some(s) = info.payload().downcast_ref::<&str>() {
            (*s).to_string()
        } else if let Some(s) = info.payload().downcast_ref::<String>() {
            s.clone()
        } else {
            "<non-string panic>".to_string()
        };
        let loc = info
            .location()
            .map(|l| format!("{}:{}", l.file(), l.line()))
            .unwrap_or_default();
        LAST_PANIC.with(|p| *p.borrow_mut() = Some(format!("{msg} @ {loc}")));
    }));
}

pub fn take_last_panic() -> Option<String> {
    LAST_PANIC.with(|p| p.borrow_mut().take())
}

/// Replace digit runs by `#`, so the class is stable while arguments shrink.
pub fn normalise(msg: &str) -> String {
    let mut out = String::with_capacity(msg.len());
    let mut in_digits = false;
    for ch in msg.chars() {
        if ch.is_ascii_digit() {
            if !in_digits {
                out.push('#');
                in_digits = true;
            }
        } else {
            in_digits = false;
            out.push(ch);
        }
    }
    out
}

/// Execute with panics converted into failures.
pub fn execute_caught<S: Scenario>(s: &S, case: &S::Case, obs: &mut Obs) -> Result<(), Failure> {
    let r = catch_unwind(AssertUnwindSafe(|| s.execute(case, obs)));
    match r {
        Ok(r) => r,
        Err(_) => {
            let msg = take_last_panic().unwrap_or_else(|| "<unknown panic>".into());
            // Keep only the message (not the location) in the class, so a
            // moved line does not change the class; keep both in the detail.
            let head = msg.split(" @ ").next().unwrap_or("").to_string();
            Err(Failure {
                class: format!("panic:{}", normalise(&head)),
                seq: obs.ops as usize,
                detail: json!({ "panic": msg }),
            })
        }
    }
}

// ---------------------------------------------------------------------------
// Known findings
// ---------------------------------------------------------------------------

#[derive(Clone, Debug, Deserialize)]
pub struct KnownFinding {
    pub property: String,
    pub id: String,
    pub status: String,
    /// Exact class the failure must have.
    #[serde(default)]
    pub class: Option<String>,
    /// Every key here must be present with an equal value in `failure.detail`.
    #[serde(default)]
    pub detail: Option<Value>,
    #[serde(default)]
    pub canonical_replay: Option<String>,
    pub what: String,
}

#[derive(Clone, Debug, Default, Deserialize)]
pub struct KnownFile {
    #[serde(default)]
    pub findings: Vec<KnownFinding>,
    #[serde(default)]
    pub fixed: Vec<String>,
}

pub fn verif_root() -> std::path::PathBuf {
    if let Ok(p) = std::env::var("VERIF_ROOT") {
        return p.into();
    }
    // sim/target/release/<bin> -> /verif
    let exe = std::env::current_exe().unwrap_or_default();
    let mut p = exe.clone();
    for _ in 0..4 {
        p.pop();
    }
    if p.join("properties.jsonl").exists() {
        return p;
    }
    "/verif".into()
}

pub fn load_known(property: &str) -> Vec<KnownFinding> {
    let path = verif_root().join("known_findings.json");
    let Ok(text) = std::fs::read_to_string(&path) else {
        return Vec::new();
    };
    let file: KnownFile = match serde_json::from_str(&text) {
        Ok(f) => f,
        Err(e) => {
            eprintln!("harness error: cannot parse {}: {e}", path.display());
            std::process::exit(2);
        }
    };
    file.findings
        .into_iter()
        .filter(|f| f.property == property && f.status == "known")
        .collect()
}

pub fn matches_known(f: &Failure, known: &[KnownFinding]) -> Option<usize> {
    known.iter().position(|k| {
        if let Some(c) = &k.class {
            if *c != f.class {
                return false;
            }
        }
        if let Some(Value::Object(want)) = &k.detail {
            for (key, v) in want {
                if f.detail.get(key) != Some(v) {
                    return false;
                }
            }
        }
        k.class.is_some() || k.detail.is_some()
    })
}

// ---------------------------------------------------------------------------
// Distinct counting: a one-hash bit table. The number of set bits is a lower
// bound on the number of distinct items and does not depend on insertion
// order or worker count.
// ---------------------------------------------------------------------------

pub struct BitTable {
    words: Vec<AtomicU64>,
    mask: u64,
}

impl BitTable {
    pub fn for_items(n: u64) -> Self {
        let bits = (n.max(1024) * 64).next_power_of_two().min(1 << 32);
        let words = (bits / 64) as usize;
        let mut v = Vec::with_capacity(words);
        v.resize_with(words, || AtomicU64::new(0));
        Self {
            words: v,
            mask: bits - 1,
        }
    }
    #[inline]
    pub fn insert(&self, h: u64) {
        let mut x = h;
        let b = rng::splitmix64(&mut x) & self.mask;
        self.words[(b / 64) as usize].fetch_or(1 << (b % 64), Ordering::Relaxed);
    }
    pub fn count(&self) -> u64 {
        self.words
            .iter()
            .map(|w| w.load(Ordering::Relaxed).count_ones() as u64)
            .sum()
    }
}

// ---------------------------------------------------------------------------
// Exploration
// ---------------------------------------------------------------------------

pub struct Outcome<C> {
    pub runs_done: u64,
    pub nontrivial_runs: u64,
    pub distinct_nontrivial: u64,
    pub distinct_interleavings: u64,
    pub ops_total: u64,
    pub reach: Counters,
    pub faults: Counters,
    pub known_hits: BTreeMap<String, u64>,
    pub first_failure: Option<(u64, C, Failure)>,
    pub samples: Vec<Value>,
    pub wall_s: f64,
    /// Hash over (run index, fingerprint, result class) in index order.
    pub log_hash: u64,
}

impl<C> Outcome<C> {
    pub fn empty(reach: &'static [&'static str], faults: &'static [&'static str], sample: Value) -> Self {
        Self {
            runs_done: 1,
            nontrivial_runs: 1,
            distinct_nontrivial: 2,
            distinct_interleavings: 1,
            ops_total: 0,
            reach: Counters::new(reach),
            faults: Counters::new(faults),
            known_hits: BTreeMap::new(),
            first_failure: None,
            samples: vec![sample],
            wall_s: 0.0,
            log_hash: 0,
        }
    }
}

pub struct ExploreCfg {
    pub seed: u64,
    pub tier: Tier,
    pub runs: u64,
    pub workers: usize,
    pub want_log_hash: bool,
}

const CHUNK: u64 = 256;

/// Seconds after which a single run that has not returned is reported as a
/// hang. Runs normally take well under a millisecond, so the default leaves
/// five orders of magnitude of slack for a loaded machine.
pub fn hang_seconds() -> u64 {
    std::env::var("VERIF_HANG_S").ok().and_then(|s| s.parse().ok()).unwrap_or(60)
}

pub fn explore<S: Scenario>(
    s: &S,
    cfg: &ExploreCfg,
    known: &[KnownFinding],
    on_hang: &(dyn Fn(u64) + Sync),
) -> Outcome<S::Case> {
    let t0 = Instant::now();
    let n_workers = cfg.workers.max(1);
    // progress slots: (run index or u64::MAX, start in ms since t0)
    let slots: Vec<(AtomicU64, AtomicU64)> = (0..n_workers).map(|_| (AtomicU64::new(u64::MAX), AtomicU64::new(0))).collect();
    let done = std::sync::atomic::AtomicBool::new(false);
    let worker_ids = AtomicU64::new(0);
    let next_chunk = AtomicU64::new(0);
    let stop_after = AtomicU64::new(u64::MAX); // smallest failing run index
    let n_chunks = cfg.runs.div_ceil(CHUNK);
    let nontrivial_tbl = BitTable::for_items(cfg.runs);
    let inter_tbl = BitTable::for_items(cfg.runs);

    struct Acc<C> {
        reach: Counters,
        faults: Counters,
        ops: u64,
        runs: u64,
        nontrivial: u64,
        known_hits: BTreeMap<String, u64>,
        fail: Option<(u64, C, Failure)>,
        samples: Vec<(u64, Value)>,
        log: Vec<(u64, u64)>,
    }
    let total: Mutex<Vec<Acc<S::Case>>> = Mutex::new(Vec::new());

    std::thread::scope(|scope| {
        // hang monitor: real time is used only to notice a run that never returns
        scope.spawn(|| {
            let limit_ms = hang_seconds() * 1000;
            while !done.load(Ordering::Relaxed) {
                std::thread::sleep(std::time::Duration::from_millis(250));
                let now = t0.elapsed().as_millis() as u64;
                for (run, start) in &slots {
                    let r = run.load(Ordering::Relaxed);
                    if r != u64::MAX && now.saturating_sub(start.load(Ordering::Relaxed)) > limit_ms && run.load(Ordering::Relaxed) == r {
                        on_hang(r); // does not return
                    }
                }
            }
        });
        let mut handles = Vec::new();
        for _ in 0..n_workers {
            handles.push(scope.spawn(|| {
                install_quiet_panic_hook();
                let wid = worker_ids.fetch_add(1, Ordering::Relaxed) as usize;
                let slot = &slots[wid % slots.len()];
                let mut acc = Acc {
                    reach: Counters::new(s.reach_names()),
                    faults: Counters::new(s.fault_names()),
                    ops: 0,
                    runs: 0,
                    nontrivial: 0,
                    known_hits: BTreeMap::new(),
                    fail: None,
                    samples: Vec::new(),
                    log: Vec::new(),
                };
                loop {
                    let c = next_chunk.fetch_add(1, Ordering::Relaxed);
                    if c >= n_chunks {
                        break;
                    }
                    let lo = c * CHUNK;
                    if lo > stop_after.load(Ordering::Relaxed) {
                        continue;
                    }
                    let hi = (lo + CHUNK).min(cfg.runs);
                    for r in lo..hi {
                        if r > stop_after.load(Ordering::Relaxed) {
                            break;
                        }
                        let mut rng = Rng::new(run_seed(cfg.seed, s.property(), r));
                        let case = s.generate(&mut rng, cfg.tier);
                        let mut obs = Obs::new(s.reach_names(), s.fault_names());
                        slot.1.store(t0.elapsed().as_millis() as u64, Ordering::Relaxed);
                        slot.0.store(r, Ordering::Relaxed);
                        let res = execute_caught(s, &case, &mut obs);
                        slot.0.store(u64::MAX, Ordering::Relaxed);
                        acc.runs += 1;
                        acc.ops += obs.ops;
                        acc.reach.merge(&obs.reach);
                        acc.faults.merge(&obs.faults);
                        let (dh, sh) = s.fingerprint(&case);
                        inter_tbl.insert(obs.interleaving.0 ^ sh.rotate_left(1));
                        if s.nontrivial(&case, &obs) {
                            acc.nontrivial += 1;
                            nontrivial_tbl.insert(dh ^ sh.rotate_left(29));
                        }
                        // Keep a handful of samples from fixed run indices.
                        if r < 4 || (r.is_power_of_two() && r <= (1 << 20)) {
                            acc.samples.push((r, s.sample(&case)));
                        }
                        let mut class_hash = 0u64;
                        if let Err(f) = res {
                            class_hash = fnv1a(f.class.as_bytes());
                            if let Some(k) = matches_known(&f, known) {
                                *acc.known_hits.entry(known[k].id.clone()).or_default() += 1;
                            } else {
                                stop_after.fetch_min(r, Ordering::Relaxed);
                                if acc.fail.as_ref().map_or(true, |(i, _, _)| r < *i) {
                                    acc.fail = Some((r, case.clone(), f));
                                }
                            }
                        }
                        if cfg.want_log_hash {
                            let mut h = Fnv::default();
                            h.u64(r);
                            h.u64(dh);
                            h.u64(sh);
                            h.u64(obs.interleaving.0);
                            h.u64(obs.ops);
                            h.u64(class_hash);
                            for v in &obs.reach.v {
                                h.u64(*v);
                            }
                            for v in &obs.faults.v {
                                h.u64(*v);
                            }
                            acc.log.push((r, h.0));
                        }
                    }
                }
                total.lock().unwrap().push(acc);
            }));
        }
        for h in handles {
            let _ = h.join();
        }
        done.store(true, Ordering::Relaxed);
    });

    let accs = total.into_inner().unwrap();
    let mut out = Outcome {
        runs_done: 0,
        nontrivial_runs: 0,
        distinct_nontrivial: nontrivial_tbl.count(),
        distinct_interleavings: inter_tbl.count(),
        ops_total: 0,
        reach: Counters::new(s.reach_names()),
        faults: Counters::new(s.fault_names()),
        known_hits: BTreeMap::new(),
        first_failure: None,
        samples: Vec::new(),
        wall_s: 0.0,
        log_hash: 0,
    };
    let mut samples: Vec<(u64, Value)> = Vec::new();
    let mut log: Vec<(u64, u64)> = Vec::new();
    for a in accs {
        out.runs_done += a.runs;
        out.nontrivial_runs += a.nontrivial;
        out.ops_total += a.ops;
        out.reach.merge(&a.reach);
        out.faults.merge(&a.faults);
        for (k, v) in a.known_hits {
            *out.known_hits.entry(k).or_default() += v;
        }
        if let Some((i, c, f)) = a.fail {
            if out.first_failure.as_ref().map_or(true, |(j, _, _)| i < *j) {
                out.first_failure = Some((i, c, f));
            }
        }
        samples.extend(a.samples);
        log.extend(a.log);
    }
    samples.sort_by_key(|(r, _)| *r);
    out.samples = samples
        .into_iter()
        .take(6)
        .map(|(r, v)| json!({"run": r, "case": v}))
        .collect();
    if cfg.want_log_hash {
        log.sort_unstable();
        let mut h = Fnv::default();
        for (r, x) in log {
            h.u64(r);
            h.u64(x);
        }
        out.log_hash = h.0;
    }
    out.wall_s = t0.elapsed().as_secs_f64();
    out
}

// ---------------------------------------------------------------------------
// Minimisation
// ---------------------------------------------------------------------------

pub struct Shrunk<C> {
    pub case: C,
    pub failure: Failure,
    pub attempts: u64,
}

fn fails_same<S: Scenario>(s: &S, case: &S::Case, class: &str, attempts: &mut u64) -> Option<Failure> {
    *attempts += 1;
    let mut obs = Obs::new(s.reach_names(), s.fault_names());
    match execute_caught(s, case, &mut obs) {
        Err(f) if f.class == class => Some(f),
        _ => None,
    }
}

/// ddmin over the event list, then data/argument simplification to a fixpoint,
/// keeping the violation class fixed.
pub fn minimise<S: Scenario>(
    s: &S,
    case: S::Case,
    failure: Failure,
    progress: &Mutex<Option<(S::Case, Failure)>>,
) -> Shrunk<S::Case> {
    let class = failure.class.clone();
    let mut best = case;
    let mut best_f = failure;
    let mut attempts = 0u64;
    let budget = 20_000u64;
    macro_rules! publish {
        () => {
            if let Ok(mut g) = progress.lock() {
                *g = Some((best.clone(), best_f.clone()));
            }
        };
    }
    publish!();

    // Events after the failing one cannot matter.
    {
        let n = s.n_events(&best);
        if best_f.seq < n {
            let keep: Vec<bool> = (0..n).map(|i| i <= best_f.seq).collect();
            let cand = s.keep_events(&best, &keep);
            if let Some(f) = fails_same(s, &cand, &class, &mut attempts) {
                best = cand;
                best_f = f;
                publish!();
            }
        }
    }

    loop {
        let mut progressed = false;

        // --- ddmin on events ---
        let mut chunk = (s.n_events(&best) / 2).max(1);
        while chunk >= 1 && attempts < budget {
            let n = s.n_events(&best);
            if n == 0 {
                break;
            }
            let mut start = 0;
            let mut removed_any = false;
            while start < s.n_events(&best) && attempts < budget {
                let n = s.n_events(&best);
                let end = (start + chunk).min(n);
                let keep: Vec<bool> = (0..n).map(|i| i < start || i >= end).collect();
                let cand = s.keep_events(&best, &keep);
                if let Some(f) = fails_same(s, &cand, &class, &mut attempts) {
                    best = cand;
                    best_f = f;
                    publish!();
                    removed_any = true;
                    progressed = true;
                    // do not advance: the next chunk slid into place
                } else {
                    start = end;
                }
            }
            if chunk == 1 && !removed_any {
                break;
            }
            if !removed_any {
                chunk /= 2;
            } else {
                chunk = chunk.min((s.n_events(&best) / 2).max(1));
            }
        }

        // --- data / argument simplifications ---
        let mut simplified = true;
        while simplified && attempts < budget {
            simplified = false;
            for cand in s.simplifications(&best) {
                if attempts >= budget {
                    break;
                }
                if let Some(f) = fails_same(s, &cand, &class, &mut attempts) {
                    best = cand;
                    best_f = f;
                    publish!();
                    simplified = true;
                    progressed = true;
                    break;
                }
            }
        }

        if !progressed || attempts >= budget {
            break;
        }
    }

    Shrunk {
        case: best,
        failure: best_f,
        attempts,
    }
}

/// Run `work` on a helper thread; if it has not finished after `secs` seconds,
/// call `on_timeout` (which is expected to report and never return) and exit.
pub fn with_deadline<T: Send>(secs: u64, work: impl FnOnce() -> T + Send, on_timeout: impl FnOnce()) -> T {
    std::thread::scope(|sc| {
        let (tx, rx) = std::sync::mpsc::channel();
        sc.spawn(move || {
            let _ = tx.send(work());
        });
        match rx.recv_timeout(std::time::Duration::from_secs(secs)) {
            Ok(v) => v,
            Err(_) => {
                on_timeout();
                std::process::exit(1)
            }
        }
    })
}

// ---------------------------------------------------------------------------
// Replay files
// ---------------------------------------------------------------------------

#[derive(Serialize, Deserialize)]
pub struct ReplayFile<C> {
    pub property: String,
    pub engine: String,
    pub seed: u64,
    pub run: u64,
    pub minimised: bool,
    pub original_events: usize,
    pub case: C,
    pub expect: Failure,
}

pub fn write_replay<S: Scenario>(
    s: &S,
    seed: u64,
    run: u64,
    original_events: usize,
    case: &S::Case,
    expect: &Failure,
) -> std::path::PathBuf {
    let dir = verif_root().join("replays");
    let _ = std::fs::create_dir_all(&dir);
    let path = dir.join(format!("{}-{}-{}.json", s.property(), seed, run));
    let rf = ReplayFile {
        property: s.property().to_string(),
        engine: s.engine().to_string(),
        seed,
        run,
        minimised: true,
        original_events,
        case: case.clone(),
        expect: expect.clone(),
    };
    let text = serde_json::to_string_pretty(&rf).expect("serialise replay");
    if let Err(e) = std::fs::write(&path, text) {
        eprintln!("harness error: cannot write {}: {e}", path.display());
        std::process::exit(2);
    }
    path
}

/// All failures of the case stored in a replay file.
pub fn replay_all<S: Scenario>(s: &S, text: &str) -> Result<Vec<Failure>, String> {
    let rf: ReplayFile<S::Case> = serde_json::from_str(text).map_err(|e| e.to_string())?;
    install_quiet_panic_hook();
    Ok(s.all_failures(&rf.case))
}

/// Re-execute a replay file. Returns the failure if it recurs.
pub fn replay<S: Scenario>(s: &S, text: &str) -> Result<Option<Failure>, String> {
    let rf: ReplayFile<S::Case> = serde_json::from_str(text).map_err(|e| e.to_string())?;
    install_quiet_panic_hook();
    let mut obs = Obs::new(s.reach_names(), s.fault_names());
    match execute_caught(s, &rf.case, &mut obs) {
        Ok(()) => Ok(None),
        Err(f) => Ok(Some(f)),
    }
}

// ---------------------------------------------------------------------------
// Evidence
// ---------------------------------------------------------------------------

#[allow(clippy::too_many_arguments)]
pub fn write_evidence<S: Scenario>(
    s: &S,
    level: &str,
    cfg: &ExploreCfg,
    out: &Outcome<S::Case>,
    violations: u64,
    known_lines: &[String],
    extra: Value,
) {
    let dir = verif_root().join("evidence");
    let _ = std::fs::create_dir_all(&dir);
    let path = dir.join(format!("{}.json", s.property()));
    let mut coverage = json!({
        "evaluations": out.runs_done,
        "distinct_nontrivial": out.distinct_nontrivial,
        "nontrivial_runs": out.nontrivial_runs,
        "rule": s.rule(),
        "samples": out.samples,
        "distinct_interleavings": out.distinct_interleavings,
        "ops_total": out.ops_total,
        "logical_steps": out.ops_total,
        "simulated_time": "none: the code under test has no clock or timer; time is the global event sequence number (logical_steps)",
        "runs_per_hour": if out.wall_s > 0.0 { (out.runs_done as f64 / out.wall_s * 3600.0) as u64 } else { 0 },
        "workers": cfg.workers,
        "fault_counts": out.faults.to_json(),
        "reach": out.reach.to_json(),
        "real_vs_stub": s.real_vs_stub(),
        "known_findings_hit": out.known_hits,
        "known_finding_lines": known_lines,
        "exhaustive": false,
    });
    if let (Value::Object(c), Value::Object(e)) = (&mut coverage, extra) {
        for (k, v) in e {
            c.insert(k, v);
        }
    }
    if let (Value::Object(c), Value::Object(e)) = (&mut coverage, s.extra_coverage()) {
        for (k, v) in e {
            c.insert(k, v);
        }
    }
    let ev = json!({
        "property_id": s.property(),
        "tier": cfg.tier.name(),
        "seed": cfg.seed,
        "level": level,
        "coverage": coverage,
        "assumptions": s.assumptions(),
        "wall_s": out.wall_s,
        "violations": violations,
    });
    let text = serde_json::to_string_pretty(&ev).unwrap();
    if let Err(e) = std::fs::write(&path, text) {
        eprintln!("harness error: cannot write {}: {e}", path.display());
        std::process::exit(2);
    }
}

/// Evidence self-check: every required reach probe fired at least once.
pub fn reach_selfcheck<S: Scenario>(s: &S, out: &Outcome<S::Case>) -> Vec<&'static str> {
    let mut missing = Vec::new();
    for name in s.required_reach() {
        if let Some(i) = out.reach.names.iter().position(|n| n == name) {
            if out.reach.v[i] == 0 {
                missing.push(*name);
            }
        }
    }
    missing
}

pub fn env_seed() -> u64 {
    match std::env::var("VERIF_SEED") {
        Ok(s) if !s.trim().is_empty() => match s.trim().parse::<u64>() {
            Ok(v) => v,
            Err(_) => {
                // Accept negative / huge integers by hashing the text.
                fnv1a(s.trim().as_bytes())
            }
        },
        _ => DEFAULT_SEED,
    }
}
