//! The single source of randomness of a simulated run.
//!
//! `VERIF_SEED` -> per-run seed -> xoshiro256**. Nothing else (clock, address,
//! hash order, thread id) is ever consulted for a decision.

#[derive(Clone, Debug)]
pub struct Rng {
    s: [u64; 4],
}

#[inline]
pub fn splitmix64(x: &mut u64) -> u64 {
    *x = x.wrapping_add(0x9E37_79B9_7F4A_7C15);
    let mut z = *x;
    z = (z ^ (z >> 30)).wrapping_mul(0xBF58_476D_1CE4_E5B9);
    z = (z ^ (z >> 27)).wrapping_mul(0x94D0_49BB_1331_11EB);
    z ^ (z >> 31)
}

/// FNV-1a, used for stable hashing of names and traces (never `std` hashers,
/// whose keys are per-process random).
pub fn fnv1a(bytes: &[u8]) -> u64 {
    let mut h = 0xcbf2_9ce4_8422_2325u64;
    for &b in bytes {
        h ^= b as u64;
        h = h.wrapping_mul(0x0000_0100_0000_01B3);
    }
    h
}

#[derive(Clone, Copy, Debug)]
pub struct Fnv(pub u64);
impl Default for Fnv {
    fn default() -> Self {
        Self(0xcbf2_9ce4_8422_2325)
    }
}
impl Fnv {
    #[inline]
    pub fn u64(&mut self, v: u64) {
        for i in 0..8 {
            self.0 ^= (v >> (i * 8)) & 0xff;
            self.0 = self.0.wrapping_mul(0x0000_0100_0000_01B3);
        }
    }
    #[inline]
    pub fn bytes(&mut self, b: &[u8]) {
        for &x in b {
            self.0 ^= x as u64;
            self.0 = self.0.wrapping_mul(0x0000_0100_0000_01B3);
        }
    }
}

/// Seed of run `r` of property `prop` under `VERIF_SEED = seed`.
pub fn run_seed(seed: u64, prop: &str, r: u64) -> u64 {
    let mut x = seed ^ fnv1a(prop.as_bytes()).rotate_left(17) ^ r.wrapping_mul(0xD6E8_FEB8_6659_FD93);
    splitmix64(&mut x)
}

impl Rng {
    pub fn new(seed: u64) -> Self {
        let mut x = seed;
        let s = [
            splitmix64(&mut x),
            splitmix64(&mut x),
            splitmix64(&mut x),
            splitmix64(&mut x),
        ];
        Self { s }
    }

    #[inline]
    pub fn next_u64(&mut self) -> u64 {
        let result = self.s[1].wrapping_mul(5).rotate_left(7).wrapping_mul(9);
        let t = self.s[1] << 17;
        self.s[2] ^= self.s[0];
        self.s[3] ^= self.s[1];
        self.s[1] ^= self.s[2];
        self.s[0] ^= self.s[3];
        self.s[2] ^= t;
        self.s[3] = self.s[3].rotate_left(45);
        result
    }

    /// Uniform in `0..n` (`n > 0`). Multiply-shift; bias is irrelevant here.
    #[inline]
    pub fn below(&mut self, n: u64) -> u64 {
        debug_assert!(n > 0);
        ((self.next_u64() as u128 * n as u128) >> 64) as u64
    }

    #[inline]
    pub fn usize_below(&mut self, n: usize) -> usize {
        self.below(n as u64) as usize
    }

    /// Uniform in `lo..=hi`.
    #[inline]
    pub fn range(&mut self, lo: u64, hi: u64) -> u64 {
        debug_assert!(lo <= hi);
        if lo == 0 && hi == u64::MAX {
            return self.next_u64();
        }
        lo + self.below(hi - lo + 1)
    }

    #[inline]
    pub fn urange(&mut self, lo: usize, hi: usize) -> usize {
        self.range(lo as u64, hi as u64) as usize
    }

    /// True with probability `num/den`.
    #[inline]
    pub fn chance(&mut self, num: u64, den: u64) -> bool {
        self.below(den) < num
    }

    #[inline]
    pub fn pick<'a, T>(&mut self, xs: &'a [T]) -> &'a T {
        &xs[self.usize_below(xs.len())]
    }

    /// Weighted choice: returns index i with probability w[i]/sum(w).
    pub fn weighted(&mut self, w: &[u32]) -> usize {
        let total: u64 = w.iter().map(|&x| x as u64).sum();
        debug_assert!(total > 0);
        let mut t = self.below(total);
        for (i, &x) in w.iter().enumerate() {
            if t < x as u64 {
                return i;
            }
            t -= x as u64;
        }
        w.len() - 1
    }

    /// An independent sub-stream (for a client's private choices).
    pub fn fork(&mut self) -> Rng {
        Rng::new(self.next_u64())
    }
}

#[cfg(test)]
mod tests {
    use super::*;
    #[test]
    fn deterministic() {
        let mut a = Rng::new(7);
        let mut b = Rng::new(7);
        for _ in 0..100 {
            assert_eq!(a.next_u64(), b.next_u64());
        }
    }
}
