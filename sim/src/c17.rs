//! C17 — YAML position tables return recorded positions under any access order.
//!
//! Target (a) `Table`: arbitrary recorded start/end vectors reach the REAL
//! `OpenPositions::build` / `EndPositions::build` through the public
//! `YamlIndex::from_parts`; several clients interleave lookups on the two hidden
//! `Cell<SequentialCursor>` caches. Oracle: the recorded vectors.
//!
//! Target (b) `Doc`: generated YAML -> REAL `YamlIndex::build`; interleaved
//! clients navigate with the real cursor API; every answer must equal the
//! answer a *fresh clone* (cold caches) gives to the same single question.

use std::collections::BTreeMap;

use serde::{Deserialize, Serialize};
use serde_json::{json, Value};

use succinctly::yaml::{YamlCursor, YamlIndex};

use crate::core::sched::Sched;
use crate::core::{Failure, Fnv, Obs, Rng, Scenario, Tier};

// ------------------------------------------------------------------- case --

#[derive(Clone, Debug, Serialize, Deserialize, PartialEq)]
pub enum TEv {
    /// `text_pos_by_open_idx(i)` (`via_bp`: through `bp_to_text_pos`).
    Start { c: u8, r: u8, i: u64, via_bp: bool },
    /// `text_end_pos_by_open_idx(i)` (`via_bp`: through `bp_to_text_end_pos`).
    End { c: u8, r: u8, i: u64, via_bp: bool },
    Restart { r: u8 },
    Fork { r: u8 },
}

#[derive(Clone, Debug, Serialize, Deserialize)]
pub struct TableCase {
    pub parser_like: bool,
    pub text_len: u64,
    pub starts: Vec<u32>,
    pub ends: Vec<u32>,
    pub policy: String,
    pub events: Vec<TEv>,
}

#[derive(Clone, Debug, Serialize, Deserialize, PartialEq)]
pub enum DEv {
    Child { c: u8 },
    Sib { c: u8 },
    Parent { c: u8 },
    /// New cursor at the `k`-th open (mod number of opens).
    Jump { c: u8, k: u64 },
    /// `to_json()` of the client's node (decodes scalars, resolves aliases / merge keys,
    /// streams containers: a burst of internal lookups).
    Json { c: u8 },
    /// `raw_bytes()` of the client's node.
    Raw { c: u8 },
    /// `find_bp_at_text_pos(pos)`.
    Locate { c: u8, pos: u64 },
    /// Evaluate yq program template `t` with the REAL generic evaluator (yq semantics) at
    /// the client's node: a realistic burst of position-table and line-index lookups.
    Yq { c: u8, t: u8 },
    /// Move client `c` to replica `r`.
    Switch { c: u8, r: u8 },
    Restart { r: u8 },
    Fork { r: u8 },
}

#[derive(Clone, Debug, Serialize, Deserialize)]
pub struct DocCase {
    pub text: Vec<u8>,
    pub policy: String,
    pub events: Vec<DEv>,
}

#[derive(Clone, Debug, Serialize, Deserialize)]
pub enum Case {
    Table(TableCase),
    Doc(DocCase),
}

// --------------------------------------------------------- reach counters --

pub const REACH: &[&str] = &[
    "start_sequential",      // 0 i == previous i + 1 on this replica
    "start_forward_gap",     // 1
    "start_backward",        // 2
    "start_repeat",          // 3 same i again
    "start_out_of_range",    // 4
    "start_first",           // 5
    "end_sequential",        // 6
    "end_forward_gap",       // 7
    "end_backward",          // 8
    "end_repeat",            // 9
    "end_out_of_range",      // 10
    "end_first",             // 11
    "end_recorded",          // 12 node with its own end
    "end_unrecorded_none",   // 13 node without end answered None
    "end_unrecorded_inherited", // 14 ... answered with an earlier node's end
    "starts_compact",        // 15 monotone starts
    "starts_dense",          // 16 non-monotone starts
    "ends_compact",          // 17
    "ends_dense",            // 18
    "start_eq_text_len",     // 19 a start position equal to the text length is present
    "text_len_multiple_of_64", // 20
    "start_eq_text_len_mult64", // 21 both of the above
    "end_eq_text_len",       // 22
    "distinct_starts_ge_256",// 23
    "distinct_starts_ge_512",// 24
    "long_zero_gap_in_starts", // 25 >= 512 bytes without a start, followed by more starts
    "duplicate_start_run",   // 26
    "leading_unrecorded_ends", // 27
    "via_bp_rank",           // 28
    "op_on_forked_replica",  // 29
    "table_case",            // 30
    "doc_case",              // 31
    "doc_build_failed",      // 32
    "doc_nav_step",          // 33
    "doc_json",              // 34
    "doc_raw",               // 35
    "doc_locate",            // 36
    "doc_has_alias",         // 37
    "doc_dense_starts",      // 38 not measurable from outside; counts docs with explicit keys
    "doc_final_json_equal",  // 39
    "doc_empty_value_at_eof",// 40
    "sample_crossing_gap",   // 41 forward gap whose distinct-position rank crosses a multiple of 256
    "doc_op_panics_identically_on_fresh_clone", // 42 history-independent panic (outside C17), not reported
    "doc_yq_eval",           // 43 evaluator-level client
];
const R_S_SEQ: usize = 0;
const R_E_SEQ: usize = 6;
const R_E_REC: usize = 12;
const R_E_NONE: usize = 13;
const R_E_INH: usize = 14;
const R_SC: usize = 15;
const R_SD: usize = 16;
const R_EC: usize = 17;
const R_ED: usize = 18;
const R_S_EQ_LEN: usize = 19;
const R_LEN64: usize = 20;
const R_S_EQ_LEN64: usize = 21;
const R_E_EQ_LEN: usize = 22;
const R_D256: usize = 23;
const R_D512: usize = 24;
const R_ZGAP: usize = 25;
const R_DUPRUN: usize = 26;
const R_LEAD0: usize = 27;
const R_VIA_BP: usize = 28;
const R_ON_FORK: usize = 29;
const R_TABLE: usize = 30;
const R_DOC: usize = 31;
const R_DOC_FAIL: usize = 32;
const R_DOC_NAV: usize = 33;
const R_DOC_JSON: usize = 34;
const R_DOC_RAW: usize = 35;
const R_DOC_LOC: usize = 36;
const R_DOC_ALIAS: usize = 37;
const R_DOC_EXPL: usize = 38;
const R_DOC_FINAL: usize = 39;
const R_DOC_EOF: usize = 40;
const R_SAMPLE_X: usize = 41;
const R_DOC_PANIC_BOTH: usize = 42;
const R_DOC_YQ: usize = 43;

pub const FAULTS: &[&str] = &["restart", "fork", "out_of_range"];
const F_RESTART: usize = 0;
const F_FORK: usize = 1;
const F_OOR: usize = 2;

// ------------------------------------------------------- table generation --

fn gen_text_len(rng: &mut Rng) -> u64 {
    match rng.weighted(&[4, 14, 14, 20, 20, 14, 10, 4]) {
        0 => rng.below(3),
        1 => *rng.pick(&[63u64, 64, 65, 127, 128, 129, 191, 192, 193]),
        2 => 64 * rng.range(1, 40),
        3 => rng.range(3, 200),
        4 => rng.range(200, 3000),
        5 => rng.range(3000, 40_000),
        6 => 64 * rng.range(40, 600),
        _ => rng.range(40_000, 300_000),
    }
}

fn gen_table(rng: &mut Rng, tier: Tier) -> (bool, u64, Vec<u32>, Vec<u32>) {
    let text_len = gen_text_len(rng);
    let n = match rng.weighted(&[3, 5, 20, 20, 12, 12, 12, 10, 6]) {
        0 => 0,
        1 => 1,
        2 => rng.urange(2, 10),
        3 => rng.urange(10, 70),
        4 => *rng.pick(&[63usize, 64, 65, 127, 128, 129]),
        5 => rng.urange(70, 300),
        6 => *rng.pick(&[255usize, 256, 257, 511, 512, 513, 520]),
        7 => rng.urange(300, 1200),
        _ => {
            if tier == Tier::Thorough {
                rng.urange(1200, 20000)
            } else {
                rng.urange(1200, 4000)
            }
        }
    };
    let parser_like = rng.chance(3, 5);
    // ---- starts ----
    let mut starts: Vec<u32> = Vec::with_capacity(n);
    let dup_w = *rng.pick(&[0u64, 1, 1, 2, 4]); // weight of "same position again"
    let avg_step = if n == 0 { 1 } else { (text_len / n as u64).max(1) };
    let step_style = rng.below(5);
    let mut pos: u64 = if rng.chance(1, 2) { 0 } else { rng.below(text_len + 1).min(text_len / 4 + 1) };
    // Duplicates right at a select-sample boundary (the 255th/256th/257th distinct position)
    // and positions at bit 63 / bit 0 of a word are where sampled-select shortcuts go wrong.
    let boundary_dups = rng.chance(1, 3);
    let mut distinct: u64 = 1;
    for i in 0..n {
        if i > 0 {
            let near_sample = boundary_dups && matches!(distinct % 256, 255 | 0 | 1);
            let dup = (dup_w > 0 && rng.below(dup_w + 2) < dup_w) || (near_sample && rng.chance(2, 3));
            if !dup {
                distinct += 1;
                let step = match step_style {
                    0 => 1,
                    1 => rng.range(1, 3),
                    2 => rng.range(1, avg_step * 2),
                    3 => {
                        // clusters separated by long empty stretches
                        if rng.chance(1, 30) {
                            rng.range(512, 4000)
                        } else {
                            rng.range(1, 3)
                        }
                    }
                    _ => rng.range(1, 80),
                };
                pos = (pos + step).min(text_len);
            }
        }
        starts.push(pos.min(text_len) as u32);
    }
    // tail exactly at text_len (empty value at EOF)
    if n > 0 && rng.chance(1, 4) {
        let k = rng.urange(1, 3.min(n));
        for x in starts.iter_mut().rev().take(k) {
            *x = text_len as u32;
        }
    }
    // non-monotone -> Dense fallback
    if n >= 2 && !parser_like && rng.chance(1, 3) {
        let swaps = rng.urange(1, 3);
        for _ in 0..swaps {
            let a = rng.usize_below(n);
            let b = rng.usize_below(n);
            starts.swap(a, b);
        }
    }
    if n >= 2 && parser_like && rng.chance(1, 12) {
        // explicit-key shape: one early node recorded out of order
        let a = rng.usize_below(n - 1);
        starts.swap(a, a + 1);
    }
    // ---- ends ----
    let mut ends: Vec<u32> = vec![0; n];
    let zero_w = *rng.pick(&[1u64, 2, 5, 9]); // out of 10: probability of "container"
    let leading_zeros = if rng.chance(1, 3) { rng.urange(0, 6.min(n)) } else { 0 };
    let starts_monotone = starts.windows(2).all(|w| w[0] <= w[1]);
    let mut distinct_ends: u64 = 0;
    if parser_like && starts_monotone {
        let mut prev_nz: u64 = 0;
        for i in 0..n {
            if i < leading_zeros || rng.below(10) < zero_w {
                continue;
            }
            // end must be >= previous recorded end and <= start of the next node
            let hi = if i + 1 < n { starts[i + 1] as u64 } else { text_len };
            let lo = prev_nz.max(1);
            if lo > hi {
                continue;
            }
            let near_sample = boundary_dups && matches!(distinct_ends % 256, 255 | 0 | 1);
            let e = if near_sample && prev_nz > 0 && prev_nz <= hi && rng.chance(2, 3) {
                prev_nz // repeat the previous end exactly at a sample boundary
            } else {
                match rng.below(4) {
                    0 => hi,
                    1 => lo,
                    _ => rng.range(lo, hi),
                }
            };
            if e != prev_nz {
                distinct_ends += 1;
            }
            ends[i] = e as u32;
            prev_nz = e;
        }
    } else {
        let monotone_ends = rng.chance(2, 3);
        let mut prev_nz: u64 = 0;
        for (i, e) in ends.iter_mut().enumerate() {
            if i < leading_zeros || rng.below(10) < zero_w {
                continue;
            }
            if text_len == 0 {
                continue;
            }
            let v = if monotone_ends {
                let lo = prev_nz.max(1);
                if lo > text_len {
                    continue;
                }
                let near_sample = boundary_dups && matches!(distinct_ends % 256, 255 | 0 | 1);
                let v = if near_sample && prev_nz > 0 && rng.chance(2, 3) {
                    prev_nz
                } else {
                    match rng.below(5) {
                        0 => lo,
                        1 => text_len,
                        _ => rng.range(lo, (lo + avg_step * 3).min(text_len)),
                    }
                };
                if v != prev_nz {
                    distinct_ends += 1;
                }
                v
            } else {
                rng.range(1, text_len)
            };
            *e = v as u32;
            prev_nz = v;
        }
    }
    (parser_like, text_len, starts, ends)
}

#[derive(Clone, Copy)]
enum TKind {
    Sequential,
    GapWalker,
    BackJumper,
    Repeater,
    DecodeRewind,
    EdgeProber,
}

struct TClient {
    kind: TKind,
    rng: Rng,
    pos: u64,
    replica: u8,
    /// 0 = starts only, 1 = ends only, 2 = alternate, 3 = both per index
    which: u8,
    flip: bool,
    via_bp: bool,
    rewind_base: u64,
    rewind_left: u32,
}

fn gen_table_events(rng: &mut Rng, n: usize, tier: Tier) -> (Vec<TEv>, String) {
    let n_clients = rng.weighted(&[30, 30, 25, 15]) + 1;
    let cap = match (rng.weighted(&[30, 45, 20, 5]), tier) {
        (0, _) => rng.urange(3, 12),
        (1, _) => rng.urange(12, 60),
        (2, _) => rng.urange(60, 150),
        (_, Tier::Quick) => rng.urange(150, 300),
        (_, Tier::Thorough) => rng.urange(150, 400),
    };
    let mut sched = Sched::new(rng, n_clients, cap);
    let fault_den = *rng.pick(&[0u64, 0, 60, 25, 8]);
    let kinds = [
        TKind::Sequential,
        TKind::Sequential,
        TKind::GapWalker,
        TKind::GapWalker,
        TKind::BackJumper,
        TKind::Repeater,
        TKind::DecodeRewind,
        TKind::EdgeProber,
    ];
    let nn = n as u64;
    let mut clients: Vec<TClient> = (0..n_clients)
        .map(|_| {
            let mut crng = rng.fork();
            TClient {
                kind: *rng.pick(&kinds),
                pos: if crng.chance(1, 2) || nn == 0 { 0 } else { crng.below(nn) },
                replica: 0,
                which: crng.below(4) as u8,
                flip: false,
                via_bp: crng.chance(1, 4),
                rewind_base: 0,
                rewind_left: 0,
                rng: crng,
            }
        })
        .collect();
    let mut events = Vec::with_capacity(cap + 4);
    let mut replicas = 1u8;
    let mut last_global: u64 = 0;
    for _ in 0..cap {
        if fault_den > 0 && rng.below(fault_den) == 0 {
            let r = rng.below(replicas as u64) as u8;
            if replicas < 3 && rng.chance(1, 2) {
                events.push(TEv::Fork { r });
                replicas += 1;
            } else {
                events.push(TEv::Restart { r });
            }
        }
        let ci = sched.pick(rng);
        let cl = &mut clients[ci];
        if replicas > 1 && cl.rng.chance(1, 5) {
            cl.replica = cl.rng.below(replicas as u64) as u8;
        }
        let i = match cl.kind {
            TKind::Sequential => {
                let i = cl.pos;
                cl.pos += 1;
                if cl.pos > nn + 1 {
                    cl.pos = 0;
                }
                i
            }
            TKind::GapWalker => {
                let i = cl.pos;
                let g = match cl.rng.below(6) {
                    0 => 1,
                    1 => 2,
                    2 => cl.rng.range(2, 10),
                    3 => cl.rng.range(10, 70),
                    4 => cl.rng.range(70, 300),
                    _ => cl.rng.range(250, 600),
                };
                cl.pos += g;
                if cl.pos > nn + 2 {
                    cl.pos = cl.rng.below(nn.min(8) + 1);
                }
                i
            }
            TKind::BackJumper => {
                if last_global == 0 {
                    0
                } else {
                    match cl.rng.below(4) {
                        0 => last_global - 1,
                        1 => last_global.saturating_sub(2),
                        _ => cl.rng.below(last_global),
                    }
                }
            }
            TKind::Repeater => match cl.rng.below(8) {
                0 => last_global + 1,
                _ => last_global,
            },
            TKind::DecodeRewind => {
                if cl.rewind_left == 0 {
                    // jump back to the base, then read forward again
                    cl.rewind_left = cl.rng.range(1, 12) as u32;
                    if cl.rng.chance(1, 3) || cl.rewind_base >= nn {
                        cl.rewind_base = if nn == 0 { 0 } else { cl.rng.below(nn) };
                    } else if cl.rng.chance(1, 2) {
                        cl.rewind_base += cl.rng.range(1, 5);
                    }
                    cl.pos = cl.rewind_base;
                }
                cl.rewind_left -= 1;
                let i = cl.pos;
                cl.pos += 1;
                i
            }
            TKind::EdgeProber => match cl.rng.below(8) {
                0 => 0,
                1 => nn.saturating_sub(1),
                2 => nn,
                3 => nn + 1,
                4 => nn + cl.rng.range(2, 1000),
                5 => u64::MAX - cl.rng.below(2),
                6 => (64 * cl.rng.range(1, 8)).saturating_sub(cl.rng.below(2)),
                _ => (256 * cl.rng.range(1, 3)).saturating_sub(cl.rng.below(2)),
            },
        };
        last_global = i.min(nn + 2);
        let c = ci as u8;
        let r = cl.replica;
        let via_bp = cl.via_bp && i < (1 << 40);
        match cl.which {
            0 => events.push(TEv::Start { c, r, i, via_bp }),
            1 => events.push(TEv::End { c, r, i, via_bp }),
            2 => {
                cl.flip = !cl.flip;
                if cl.flip {
                    events.push(TEv::Start { c, r, i, via_bp });
                } else {
                    events.push(TEv::End { c, r, i, via_bp });
                }
            }
            _ => {
                events.push(TEv::Start { c, r, i, via_bp });
                events.push(TEv::End { c, r, i, via_bp });
            }
        }
    }
    (events, sched.name().to_string())
}

// --------------------------------------------------------- doc generation --

struct YGen<'a> {
    rng: &'a mut Rng,
    out: Vec<u8>,
    anchors_scalar: Vec<String>,
    anchors_map: Vec<String>,
    next_anchor: u32,
    budget: i32,
    explicit_keys: bool,
}

impl YGen<'_> {
    fn scalar(&mut self) -> String {
        match self.rng.below(12) {
            0 => String::new(), // empty value
            1 => "null".into(),
            2 => "true".into(),
            3 => format!("{}", self.rng.below(1000)),
            4 => format!("{}.5", self.rng.below(100)),
            5 => format!("\"q{}\"", self.rng.below(50)),
            6 => format!("'s{}'", self.rng.below(50)),
            7 => "[a, b]".into(),
            8 => "{x: 1}".into(),
            9 => "[]".into(),
            _ => format!("v{}", self.rng.below(100)),
        }
    }

    fn indent(&mut self, n: usize) {
        for _ in 0..n {
            self.out.push(b' ');
        }
    }

    fn mapping(&mut self, ind: usize, depth: u32) {
        let entries = self.rng.urange(1, 5);
        let mut can_merge = !self.anchors_map.is_empty();
        for e in 0..entries {
            self.budget -= 1;
            self.indent(ind);
            if can_merge && self.rng.chance(1, 4) {
                let a = self.rng.pick(&self.anchors_map).clone();
                self.out.extend_from_slice(format!("<<: *{a}\n").as_bytes());
                can_merge = false;
                continue;
            }
            let key = match self.rng.below(12) {
                0 => format!("\"q k{}{}\"", depth, e),
                1 => format!("'s{}{}'", depth, e),
                _ => format!("k{}{}", depth, e),
            };
            let explicit = self.explicit_keys && self.rng.chance(1, 5);
            if explicit {
                self.out.extend_from_slice(format!("? {key}\n").as_bytes());
                self.indent(ind);
                self.out.extend_from_slice(b":");
            } else {
                self.out.extend_from_slice(format!("{key}:").as_bytes());
            }
            let nested = depth < 4 && self.budget > 0 && self.rng.chance(1, 3);
            if nested {
                let anchor = if self.rng.chance(1, 5) {
                    let a = format!("m{}", self.next_anchor);
                    self.next_anchor += 1;
                    Some(a)
                } else {
                    None
                };
                let is_map = self.rng.chance(1, 2);
                if let Some(a) = &anchor {
                    self.out.extend_from_slice(format!(" &{a}").as_bytes());
                }
                self.out.push(b'\n');
                if is_map {
                    self.mapping(ind + 2, depth + 1);
                    if let Some(a) = anchor {
                        self.anchors_map.push(a);
                    }
                } else {
                    self.sequence(ind + 2, depth + 1);
                }
            } else if !self.anchors_scalar.is_empty() && self.rng.chance(1, 6) {
                let a = self.rng.pick(&self.anchors_scalar).clone();
                self.out.extend_from_slice(format!(" *{a}\n").as_bytes());
            } else if self.rng.chance(1, 10) {
                // block scalar (literal or folded, with optional chomping indicator)
                let ind_s = *self.rng.pick(&["|", ">", "|-", ">-", "|+"]);
                self.out.extend_from_slice(format!(" {ind_s}\n").as_bytes());
                let lines = self.rng.urange(1, 3);
                for l in 0..lines {
                    self.indent(ind + 2);
                    self.out.extend_from_slice(format!("text line {l}\n").as_bytes());
                }
            } else if self.rng.chance(1, 12) {
                // multi-line plain scalar
                self.out.extend_from_slice(b" first words\n");
                self.indent(ind + 2);
                self.out.extend_from_slice(b"continued here\n");
            } else if self.rng.chance(1, 12) {
                // explicit tag
                let t = *self.rng.pick(&["!!str 123", "!!int \"7\"", "!custom v", "!!null ''", "!!seq [a]", "!!map {a: 1}"]);
                self.out.extend_from_slice(format!(" {t}\n").as_bytes());
            } else {
                let s = self.scalar();
                if self.rng.chance(1, 8) && !s.is_empty() && !s.starts_with('[') && !s.starts_with('{') {
                    let a = format!("s{}", self.next_anchor);
                    self.next_anchor += 1;
                    self.out.extend_from_slice(format!(" &{a} {s}").as_bytes());
                    self.anchors_scalar.push(a);
                } else if s.is_empty() {
                    // empty value
                } else {
                    self.out.push(b' ');
                    self.out.extend_from_slice(s.as_bytes());
                }
                if self.rng.chance(1, 10) {
                    self.out.extend_from_slice(b" # c");
                }
                self.out.push(b'\n');
            }
        }
    }

    fn sequence(&mut self, ind: usize, depth: u32) {
        let items = self.rng.urange(1, 5);
        for _ in 0..items {
            self.budget -= 1;
            self.indent(ind);
            self.out.push(b'-');
            let kind = self.rng.below(6);
            if kind == 0 && depth < 4 && self.budget > 0 {
                // inline nested mapping: "- k: v" then deeper entries
                self.out.push(b' ');
                let s = self.scalar();
                self.out.extend_from_slice(format!("i{depth}:").as_bytes());
                if !s.is_empty() {
                    self.out.push(b' ');
                    self.out.extend_from_slice(s.as_bytes());
                }
                self.out.push(b'\n');
                if self.rng.chance(1, 2) {
                    self.indent(ind + 2);
                    let s2 = self.scalar();
                    self.out.extend_from_slice(format!("j{depth}:").as_bytes());
                    if !s2.is_empty() {
                        self.out.push(b' ');
                        self.out.extend_from_slice(s2.as_bytes());
                    }
                    self.out.push(b'\n');
                }
            } else if kind == 1 && depth < 4 && self.budget > 0 {
                self.out.push(b'\n');
                if self.rng.chance(1, 2) {
                    self.mapping(ind + 2, depth + 1);
                } else {
                    self.sequence(ind + 2, depth + 1);
                }
            } else if kind == 2 {
                // empty item
                self.out.push(b'\n');
            } else if kind == 3 && !self.anchors_scalar.is_empty() {
                let a = self.rng.pick(&self.anchors_scalar).clone();
                self.out.extend_from_slice(format!(" *{a}\n").as_bytes());
            } else {
                let s = self.scalar();
                if !s.is_empty() {
                    self.out.push(b' ');
                    self.out.extend_from_slice(s.as_bytes());
                }
                self.out.push(b'\n');
            }
        }
    }
}

pub fn gen_yaml_doc(rng: &mut Rng) -> Vec<u8> {
    let explicit_keys = rng.chance(1, 4);
    let budget = match rng.weighted(&[30, 40, 25, 5]) {
        0 => rng.urange(1, 6),
        1 => rng.urange(6, 25),
        2 => rng.urange(25, 80),
        _ => rng.urange(80, 400),
    } as i32;
    let n_docs = if rng.chance(1, 8) { rng.urange(2, 3) } else { 1 };
    let mut g = YGen {
        rng,
        out: Vec::new(),
        anchors_scalar: Vec::new(),
        anchors_map: Vec::new(),
        next_anchor: 0,
        budget,
        explicit_keys,
    };
    for d in 0..n_docs {
        if n_docs > 1 || g.rng.chance(1, 6) {
            g.out.extend_from_slice(b"---\n");
        }
        // anchors do not cross documents
        g.anchors_scalar.clear();
        g.anchors_map.clear();
        let mut guard = 0;
        loop {
            if g.rng.chance(2, 3) {
                g.mapping(0, 0);
            } else {
                g.sequence(0, 0);
                break; // a top-level sequence cannot be followed by mapping entries
            }
            guard += 1;
            if g.budget <= 0 || guard > 60 {
                break;
            }
        }
        let _ = d;
    }
    // end-of-text shapes: empty value at EOF, with/without final newline
    match g.rng.below(6) {
        0 => {
            // "last:" with nothing after it (start position == text length when no newline)
            if g.out.ends_with(b"\n") && !g.out.ends_with(b"-\n") {
                let top_level_map = !g.out.starts_with(b"-") && !g.out.windows(3).any(|w| w == b"\n- ");
                if top_level_map {
                    g.out.extend_from_slice(b"zz:");
                }
            }
        }
        1 => {
            if g.out.ends_with(b"\n") {
                g.out.pop();
            }
        }
        _ => {}
    }
    g.out
}

pub fn yq_template(t: u8) -> &'static str {
    match t % 14 {
        0 => ".",
        1 => "[.. | line]",
        2 => "[.[]? | column]",
        3 => "keys",
        4 => "[.. | tag]",
        5 => "[.. | anchor]",
        6 => "[paths]",
        7 => "length",
        8 => "to_entries",
        9 => "[.. | select(kind == \"scalar\")]",
        10 => "[.[]?] | reverse",
        11 => "[.. | style]",
        12 => "[.. | [line, column]]",
        _ => "[.[]? | .[]? | line]",
    }
}

#[derive(Clone, Copy)]
enum DKind {
    Evaluator,
    DfsWalker,
    Climber,
    Jumper,
    Decoder,
    Streamer,
    Locator,
    Mixed,
}

fn gen_doc_events(rng: &mut Rng, text_len: usize) -> (Vec<DEv>, String) {
    let n_clients = rng.weighted(&[25, 30, 25, 20]) + 1;
    let cap = match rng.weighted(&[30, 45, 20, 5]) {
        0 => rng.urange(3, 10),
        1 => rng.urange(10, 40),
        2 => rng.urange(40, 100),
        _ => rng.urange(100, 200),
    };
    let mut sched = Sched::new(rng, n_clients, cap);
    let fault_den = *rng.pick(&[0u64, 0, 50, 20, 8]);
    let kinds = [
        DKind::Evaluator,
        DKind::Evaluator,
        DKind::DfsWalker,
        DKind::DfsWalker,
        DKind::Climber,
        DKind::Jumper,
        DKind::Decoder,
        DKind::Streamer,
        DKind::Locator,
        DKind::Mixed,
    ];
    let ck: Vec<DKind> = (0..n_clients).map(|_| *rng.pick(&kinds)).collect();
    let mut events = Vec::with_capacity(cap + 4);
    let mut replicas = 1u8;
    for _ in 0..cap {
        if fault_den > 0 && rng.below(fault_den) == 0 {
            let r = rng.below(replicas as u64) as u8;
            if replicas < 3 && rng.chance(1, 2) {
                events.push(DEv::Fork { r });
                replicas += 1;
            } else {
                events.push(DEv::Restart { r });
            }
        }
        let ci = sched.pick(rng);
        let c = ci as u8;
        if replicas > 1 && rng.chance(1, 6) {
            events.push(DEv::Switch {
                c,
                r: rng.below(replicas as u64) as u8,
            });
        }
        let ev = match ck[ci] {
            DKind::Evaluator => match rng.below(6) {
                0 => DEv::Child { c },
                1 => DEv::Jump { c, k: rng.below(500) },
                2 => DEv::Sib { c },
                _ => DEv::Yq { c, t: rng.below(14) as u8 },
            },
            DKind::DfsWalker => match rng.below(10) {
                0..=4 => DEv::Child { c },
                5..=7 => DEv::Sib { c },
                8 => DEv::Parent { c },
                _ => DEv::Json { c },
            },
            DKind::Climber => match rng.below(6) {
                0..=2 => DEv::Parent { c },
                3 => DEv::Child { c },
                4 => DEv::Sib { c },
                _ => DEv::Jump { c, k: rng.below(500) },
            },
            DKind::Jumper => DEv::Jump {
                c,
                k: match rng.below(4) {
                    0 => rng.below(8),
                    _ => rng.below(2000),
                },
            },
            DKind::Decoder => match rng.below(6) {
                0..=1 => DEv::Json { c },
                2 => DEv::Raw { c },
                3 => DEv::Sib { c },
                4 => DEv::Child { c },
                _ => DEv::Jump { c, k: rng.below(500) },
            },
            DKind::Streamer => match rng.below(5) {
                0..=1 => DEv::Json { c },
                2 => DEv::Parent { c },
                3 => DEv::Jump { c, k: rng.below(30) },
                _ => DEv::Child { c },
            },
            DKind::Locator => match rng.below(4) {
                0 => DEv::Jump { c, k: rng.below(500) },
                _ => DEv::Locate {
                    c,
                    pos: rng.below(text_len as u64 + 3),
                },
            },
            DKind::Mixed => match rng.below(8) {
                0 => DEv::Child { c },
                1 => DEv::Sib { c },
                2 => DEv::Parent { c },
                3 => DEv::Jump { c, k: rng.below(500) },
                4 => DEv::Json { c },
                5 => DEv::Raw { c },
                6 => DEv::Locate {
                    c,
                    pos: rng.below(text_len as u64 + 3),
                },
                _ => DEv::Child { c },
            },
        };
        events.push(ev);
    }
    (events, sched.name().to_string())
}

// -------------------------------------------------------------- execution --

type Ix = YamlIndex<Vec<u64>>;

fn build_table(tc: &TableCase) -> Ix {
    let n = tc.starts.len().max(tc.ends.len());
    // BP = n opens followed by n closes, so rank1(bp_pos) == bp_pos for bp_pos <= n.
    let bp_len = 2 * n;
    let mut bp = vec![0u64; bp_len.div_ceil(64)];
    for i in 0..n {
        bp[i / 64] |= 1u64 << (i % 64);
    }
    YamlIndex::from_parts(
        Vec::new(),
        tc.text_len as usize,
        bp,
        bp_len,
        Vec::new(),
        0,
        tc.starts.clone(),
        tc.ends.clone(),
        Vec::new(),
        BTreeMap::new(),
        BTreeMap::new(),
        BTreeMap::new(),
    )
}

#[derive(Clone, Copy, Default)]
struct TShadow {
    last_start: Option<u64>,
    last_end: Option<u64>,
    forked: bool,
}

fn mismatch(kind: &str, seq: usize, op: Value, got: Value, want: Value) -> Failure {
    Failure {
        class: format!("mismatch:{kind}"),
        seq,
        detail: json!({ "op": op, "got": got, "want": want }),
    }
}

fn classify(obs: &mut Obs, base: usize, last: &mut Option<u64>, i: u64, n: u64) {
    if i >= n {
        obs.reach.hit(base + 4);
        obs.faults.hit(F_OOR);
    }
    match *last {
        None => obs.reach.hit(base + 5),
        Some(p) => {
            if i == p + 1 {
                obs.reach.hit(base);
            } else if i > p + 1 {
                obs.reach.hit(base + 1);
            } else if i == p {
                obs.reach.hit(base + 3);
            } else {
                obs.reach.hit(base + 2);
            }
        }
    }
    if i < n {
        *last = Some(i);
    }
}

fn exec_table(tc: &TableCase, obs: &mut Obs) -> Result<(), Failure> {
    obs.reach.hit(R_TABLE);
    let n = tc.starts.len() as u64;
    let starts = &tc.starts;
    let ends = &tc.ends;
    // data-shape probes
    let s_mono = starts.windows(2).all(|w| w[0] <= w[1]);
    obs.reach.hit(if s_mono { R_SC } else { R_SD });
    {
        let mut prev = 0u32;
        let mut mono = true;
        for &e in ends.iter() {
            if e > 0 {
                if e < prev {
                    mono = false;
                    break;
                }
                prev = e;
            }
        }
        obs.reach.hit(if mono { R_EC } else { R_ED });
    }
    let has_eq_len = starts.iter().any(|&s| s as u64 == tc.text_len);
    if has_eq_len {
        obs.reach.hit(R_S_EQ_LEN);
    }
    if tc.text_len % 64 == 0 {
        obs.reach.hit(R_LEN64);
        if has_eq_len && n > 0 {
            obs.reach.hit(R_S_EQ_LEN64);
        }
    }
    if ends.iter().any(|&e| e as u64 == tc.text_len && e > 0) {
        obs.reach.hit(R_E_EQ_LEN);
    }
    // prefix count of distinct start positions (only meaningful when monotone)
    let mut distinct_before: Vec<u32> = Vec::new();
    if s_mono {
        distinct_before.reserve(starts.len());
        let mut d = 0u32;
        for (i, &s) in starts.iter().enumerate() {
            if i == 0 || s != starts[i - 1] {
                d += 1;
            }
            distinct_before.push(d);
        }
        let d = distinct_before.last().copied().unwrap_or(0);
        if d >= 256 {
            obs.reach.hit(R_D256);
        }
        if d >= 512 {
            obs.reach.hit(R_D512);
        }
        if starts.windows(2).any(|w| w[1] - w[0] >= 512) {
            obs.reach.hit(R_ZGAP);
        }
        if starts.windows(3).any(|w| w[0] == w[1] && w[1] == w[2]) {
            obs.reach.hit(R_DUPRUN);
        }
    }
    if ends.first() == Some(&0) && ends.iter().any(|&e| e > 0) {
        obs.reach.hit(R_LEAD0);
    }

    let mut replicas: Vec<Ix> = vec![build_table(tc)];
    let mut shadows: Vec<TShadow> = vec![TShadow::default()];

    for (seq, ev) in tc.events.iter().enumerate() {
        match ev {
            TEv::Restart { r } => {
                obs.step(250);
                let i = *r as usize % replicas.len();
                replicas[i] = build_table(tc);
                shadows[i] = TShadow::default();
                obs.faults.hit(F_RESTART);
            }
            TEv::Fork { r } => {
                obs.step(250);
                if replicas.len() < 4 {
                    let i = *r as usize % replicas.len();
                    let copy = replicas[i].clone();
                    replicas.push(copy);
                    let mut sh = shadows[i];
                    sh.forked = true;
                    shadows.push(sh);
                    obs.faults.hit(F_FORK);
                }
            }
            TEv::Start { c, r, i, via_bp } => {
                obs.step(*c);
                let ri = *r as usize % replicas.len();
                if shadows[ri].forked {
                    obs.reach.hit(R_ON_FORK);
                }
                if s_mono {
                    if let Some(p) = shadows[ri].last_start {
                        if *i > p + 1 && *i < n {
                            let a = distinct_before[p as usize];
                            let b = distinct_before[*i as usize];
                            if a / 256 != b / 256 {
                                obs.reach.hit(R_SAMPLE_X);
                            }
                        }
                    }
                }
                classify(obs, R_S_SEQ, &mut shadows[ri].last_start, *i, n);
                let ix = &replicas[ri];
                let use_bp = *via_bp && *i <= n;
                let got = if use_bp {
                    obs.reach.hit(R_VIA_BP);
                    ix.bp_to_text_pos(*i as usize)
                } else {
                    ix.text_pos_by_open_idx(*i as usize)
                };
                let want = starts.get(usize::try_from(*i).unwrap_or(usize::MAX)).map(|&s| s as usize);
                if got != want {
                    return Err(mismatch(
                        "start",
                        seq,
                        serde_json::to_value(ev).unwrap_or(Value::Null),
                        json!(got),
                        json!(want),
                    ));
                }
            }
            TEv::End { c, r, i, via_bp } => {
                obs.step(*c);
                let ri = *r as usize % replicas.len();
                if shadows[ri].forked {
                    obs.reach.hit(R_ON_FORK);
                }
                classify(obs, R_E_SEQ, &mut shadows[ri].last_end, *i, n);
                let ix = &replicas[ri];
                let use_bp = *via_bp && *i <= n;
                let got = if use_bp {
                    obs.reach.hit(R_VIA_BP);
                    ix.bp_to_text_end_pos(*i as usize)
                } else {
                    ix.text_end_pos_by_open_idx(*i as usize)
                };
                let idx = usize::try_from(*i).unwrap_or(usize::MAX);
                let ok = match ends.get(idx) {
                    None => got.is_none(),
                    Some(&e) if e > 0 => {
                        obs.reach.hit(R_E_REC);
                        got == Some(e as usize)
                    }
                    Some(_) => match got {
                        None => {
                            obs.reach.hit(R_E_NONE);
                            true
                        }
                        Some(g) => {
                            // must be an end recorded for an earlier node
                            let inherited = ends[..idx].iter().any(|&x| x > 0 && x as usize == g);
                            if inherited {
                                obs.reach.hit(R_E_INH);
                            }
                            inherited
                        }
                    },
                };
                if !ok {
                    let want = match ends.get(idx) {
                        None => json!(null),
                        Some(&e) if e > 0 => json!(e),
                        Some(_) => json!("null or an end recorded for an earlier node"),
                    };
                    return Err(mismatch(
                        "end",
                        seq,
                        serde_json::to_value(ev).unwrap_or(Value::Null),
                        json!(got),
                        want,
                    ));
                }
            }
        }
    }
    Ok(())
}

fn fresh_answer<T>(pristine: &Ix, f: impl FnOnce(&Ix) -> T) -> T {
    let fresh = pristine.clone();
    f(&fresh)
}

/// Run a decoding operation; a panic becomes part of the *answer* (`Err(class)`),
/// so that an operation which panics identically on a fresh clone -- a
/// history-independent defect outside C17 -- is not reported here.
fn caught<T>(f: impl FnOnce() -> T) -> Result<T, String> {
    match std::panic::catch_unwind(std::panic::AssertUnwindSafe(f)) {
        Ok(v) => Ok(v),
        Err(_) => {
            let msg = crate::core::take_last_panic().unwrap_or_default();
            let head = msg.split(" @ ").next().unwrap_or("");
            Err(format!("panic:{}", crate::core::normalise(head)))
        }
    }
}

fn exec_doc(dc: &DocCase, obs: &mut Obs) -> Result<(), Failure> {
    obs.reach.hit(R_DOC);
    let text = &dc.text[..];
    let pristine = match YamlIndex::build(text) {
        Ok(ix) => ix,
        Err(_) => {
            obs.reach.hit(R_DOC_FAIL);
            return Ok(());
        }
    };
    if pristine.has_aliases() {
        obs.reach.hit(R_DOC_ALIAS);
    }
    if text.windows(2).any(|w| w == b"? ") {
        obs.reach.hit(R_DOC_EXPL);
    }
    if text.ends_with(b":") {
        obs.reach.hit(R_DOC_EOF);
    }
    // open positions in BP order
    let bp = pristine.bp();
    let opens: Vec<usize> = (0..bp.len()).filter(|&p| bp.is_open(p)).collect();
    if opens.is_empty() {
        return Ok(());
    }
    // canonical table from a fresh clone visited strictly in BP order
    let table: Vec<(Option<usize>, Option<usize>)> = fresh_answer(&pristine, |ix| {
        (0..opens.len())
            .map(|k| (ix.text_pos_by_open_idx(k), ix.text_end_pos_by_open_idx(k)))
            .collect()
    });

    let mut replicas: Vec<Ix> = vec![pristine.clone()];
    let mut forked: Vec<bool> = vec![false];
    const MAXC: usize = 8;
    let mut at: [usize; MAXC] = [0; MAXC]; // bp position per client
    let mut on: [usize; MAXC] = [0; MAXC]; // replica per client

    for (seq, ev) in dc.events.iter().enumerate() {
        let opv = || serde_json::to_value(ev).unwrap_or(Value::Null);
        match ev {
            DEv::Restart { r } => {
                obs.step(250);
                let i = *r as usize % replicas.len();
                replicas[i] = YamlIndex::build(text).map_err(|_| mismatch("rebuild", seq, opv(), json!("Err"), json!("Ok")))?;
                forked[i] = false;
                obs.faults.hit(F_RESTART);
                continue;
            }
            DEv::Fork { r } => {
                obs.step(250);
                if replicas.len() < 4 {
                    let i = *r as usize % replicas.len();
                    let copy = replicas[i].clone();
                    replicas.push(copy);
                    forked.push(true);
                    obs.faults.hit(F_FORK);
                }
                continue;
            }
            DEv::Switch { c, r } => {
                obs.step(*c);
                on[*c as usize % MAXC] = *r as usize;
                continue;
            }
            _ => {}
        }
        let c = match ev {
            DEv::Child { c }
            | DEv::Sib { c }
            | DEv::Parent { c }
            | DEv::Jump { c, .. }
            | DEv::Json { c }
            | DEv::Raw { c }
            | DEv::Yq { c, .. }
            | DEv::Locate { c, .. } => *c as usize % MAXC,
            _ => 0,
        };
        obs.step(c as u8);
        let ri = on[c] % replicas.len();
        if forked[ri] {
            obs.reach.hit(R_ON_FORK);
        }
        let ix = &replicas[ri];
        let cur = YamlCursor::new(ix, text, at[c]);
        match ev {
            DEv::Child { .. } | DEv::Sib { .. } | DEv::Parent { .. } | DEv::Jump { .. } => {
                obs.reach.hit(R_DOC_NAV);
                let next = match ev {
                    DEv::Child { .. } => cur.first_child(),
                    DEv::Sib { .. } => cur.next_sibling(),
                    DEv::Parent { .. } => cur.parent(),
                    DEv::Jump { k, .. } => Some(YamlCursor::new(ix, text, opens[*k as usize % opens.len()])),
                    _ => None,
                };
                if let Some(nc) = next {
                    at[c] = nc.bp_position();
                    // the access: read this node's positions through the shared tables
                    let k = ix.bp_to_open_idx(nc.bp_position());
                    let got = (nc.text_position(), nc.text_end_position());
                    let want = table.get(k).copied().unwrap_or((None, None));
                    if got != want {
                        return Err(mismatch(
                            "doc_position",
                            seq,
                            opv(),
                            json!({"open_idx": k, "start": got.0, "end": got.1}),
                            json!({"open_idx": k, "start": want.0, "end": want.1}),
                        ));
                    }
                }
            }
            DEv::Json { .. } => {
                obs.reach.hit(R_DOC_JSON);
                let got = caught(|| cur.to_json());
                let bp_pos = at[c];
                let want = caught(|| fresh_answer(&pristine, |f| YamlCursor::new(f, text, bp_pos).to_json()));
                if got.is_err() {
                    obs.reach.hit(R_DOC_PANIC_BOTH);
                }
                if got != want {
                    return Err(mismatch("doc_to_json", seq, opv(), json!(got), json!(want)));
                }
            }
            DEv::Raw { .. } => {
                obs.reach.hit(R_DOC_RAW);
                let lossy = |b: Option<Vec<u8>>| b.map(|b| String::from_utf8_lossy(&b).into_owned());
                let got = caught(|| lossy(cur.raw_bytes().map(<[u8]>::to_vec)));
                let bp_pos = at[c];
                let want = caught(|| fresh_answer(&pristine, |f| lossy(YamlCursor::new(f, text, bp_pos).raw_bytes().map(<[u8]>::to_vec))));
                if got.is_err() {
                    obs.reach.hit(R_DOC_PANIC_BOTH);
                }
                if got != want {
                    return Err(mismatch("doc_raw_bytes", seq, opv(), json!(got), json!(want)));
                }
            }
            DEv::Yq { t, .. } => {
                let prog = yq_template(*t);
                if let Ok(expr) = succinctly::jq::parse_with_mode(prog, succinctly::jq::ParserMode::Yq) {
                    obs.reach.hit(R_DOC_YQ);
                    let bp_pos = at[c];
                    let got = caught(|| crate::jqrun::eval_to_string::<succinctly::jq::YqSemantics, _>(&expr, cur));
                    let want = caught(|| {
                        fresh_answer(&pristine, |f| {
                            crate::jqrun::eval_to_string::<succinctly::jq::YqSemantics, _>(&expr, YamlCursor::new(f, text, bp_pos))
                        })
                    });
                    if got.is_err() {
                        obs.reach.hit(R_DOC_PANIC_BOTH);
                    }
                    if got != want {
                        return Err(mismatch("doc_yq_program", seq, opv(), json!({"program": prog, "result": got}), json!({"program": prog, "result": want})));
                    }
                }
            }
            DEv::Locate { pos, .. } => {
                obs.reach.hit(R_DOC_LOC);
                let got = caught(|| ix.find_bp_at_text_pos(*pos as usize));
                let want = caught(|| fresh_answer(&pristine, |f| f.find_bp_at_text_pos(*pos as usize)));
                if got != want {
                    return Err(mismatch("doc_locate", seq, opv(), json!(got), json!(want)));
                }
            }
            _ => {}
        }
    }
    // at the end every replica must still serialise the document like a fresh one
    let want = caught(|| fresh_answer(&pristine, |f| f.root(text).to_json()));
    for ix in &replicas {
        let got = caught(|| ix.root(text).to_json());
        if got != want {
            return Err(mismatch("doc_final_to_json", dc.events.len(), json!("final"), json!(got), json!(want)));
        }
    }
    obs.reach.hit(R_DOC_FINAL);
    Ok(())
}

// --------------------------------------------------------------- scenario --

pub struct C17;

impl Scenario for C17 {
    type Case = Case;

    fn property(&self) -> &'static str {
        "C17"
    }
    fn engine(&self) -> &'static str {
        "histsim/c17"
    }
    fn reach_names(&self) -> &'static [&'static str] {
        REACH
    }
    fn fault_names(&self) -> &'static [&'static str] {
        FAULTS
    }
    fn required_reach(&self) -> &'static [&'static str] {
        &[
            "start_sequential",
            "start_forward_gap",
            "start_backward",
            "start_repeat",
            "start_out_of_range",
            "start_first",
            "end_sequential",
            "end_forward_gap",
            "end_backward",
            "end_repeat",
            "end_out_of_range",
            "end_first",
            "end_recorded",
            "end_unrecorded_none",
            "end_unrecorded_inherited",
            "starts_compact",
            "starts_dense",
            "ends_compact",
            "ends_dense",
            "start_eq_text_len",
            "text_len_multiple_of_64",
            "start_eq_text_len_mult64",
            "end_eq_text_len",
            "distinct_starts_ge_256",
            "distinct_starts_ge_512",
            "long_zero_gap_in_starts",
            "duplicate_start_run",
            "leading_unrecorded_ends",
            "via_bp_rank",
            "op_on_forked_replica",
            "table_case",
            "doc_case",
            "doc_nav_step",
            "doc_json",
            "doc_raw",
            "doc_locate",
            "doc_has_alias",
            "doc_dense_starts",
            "doc_final_json_equal",
            "doc_empty_value_at_eof",
            "sample_crossing_gap",
            "doc_yq_eval",
        ]
    }

    fn generate(&self, rng: &mut Rng, tier: Tier) -> Case {
        if rng.chance(4, 5) {
            let (parser_like, text_len, starts, ends) = gen_table(rng, tier);
            let (events, policy) = gen_table_events(rng, starts.len(), tier);
            Case::Table(TableCase {
                parser_like,
                text_len,
                starts,
                ends,
                policy,
                events,
            })
        } else {
            let text = gen_yaml_doc(rng);
            let (events, policy) = gen_doc_events(rng, text.len());
            Case::Doc(DocCase { text, policy, events })
        }
    }

    fn execute(&self, case: &Case, obs: &mut Obs) -> Result<(), Failure> {
        match case {
            Case::Table(t) => exec_table(t, obs),
            Case::Doc(d) => exec_doc(d, obs),
        }
    }

    fn nontrivial(&self, case: &Case, obs: &Obs) -> bool {
        let clients = (obs.clients_seen & 0x00ff_ffff).count_ones();
        let faults = obs.faults.v[F_RESTART] + obs.faults.v[F_FORK];
        match case {
            Case::Table(t) => {
                let classes = obs.reach.v[R_S_SEQ..=R_E_SEQ + 5].iter().filter(|&&x| x > 0).count();
                t.starts.len() >= 2 && (clients >= 2 || faults >= 1) && classes >= 3
            }
            Case::Doc(_) => {
                let kinds = [R_DOC_NAV, R_DOC_JSON, R_DOC_RAW, R_DOC_LOC, R_DOC_YQ]
                    .iter()
                    .filter(|&&i| obs.reach.v[i] > 0)
                    .count();
                obs.reach.v[R_DOC_FAIL] == 0 && (clients >= 2 || faults >= 1) && kinds >= 2
            }
        }
    }

    fn n_events(&self, case: &Case) -> usize {
        match case {
            Case::Table(t) => t.events.len(),
            Case::Doc(d) => d.events.len(),
        }
    }

    fn keep_events(&self, case: &Case, keep: &[bool]) -> Case {
        match case {
            Case::Table(t) => {
                let mut t2 = t.clone();
                t2.events = t.events.iter().zip(keep).filter(|(_, k)| **k).map(|(e, _)| e.clone()).collect();
                Case::Table(t2)
            }
            Case::Doc(d) => {
                let mut d2 = d.clone();
                d2.events = d.events.iter().zip(keep).filter(|(_, k)| **k).map(|(e, _)| e.clone()).collect();
                Case::Doc(d2)
            }
        }
    }

    fn simplifications(&self, case: &Case) -> Vec<Case> {
        let mut out = Vec::new();
        match case {
            Case::Table(t) => {
                let n = t.starts.len();
                // one client, one replica
                if t.events.iter().any(|e| matches!(e, TEv::Start{c,r,..}|TEv::End{c,r,..} if *c != 0 || *r != 0)) {
                    let mut t2 = t.clone();
                    for e in &mut t2.events {
                        if let TEv::Start { c, .. } | TEv::End { c, .. } = e {
                            *c = 0;
                        }
                    }
                    out.push(Case::Table(t2));
                }
                if t.events.iter().any(|e| matches!(e, TEv::Start{via_bp:true,..}|TEv::End{via_bp:true,..})) {
                    let mut t2 = t.clone();
                    for e in &mut t2.events {
                        if let TEv::Start { via_bp, .. } | TEv::End { via_bp, .. } = e {
                            *via_bp = false;
                        }
                    }
                    out.push(Case::Table(t2));
                }
                // drop the tail / head / one element of the vectors
                if n > 0 {
                    for cut in [n / 2, n - n / 4, n - 1] {
                        if cut < n {
                            let mut t2 = t.clone();
                            t2.starts.truncate(cut);
                            t2.ends.truncate(cut);
                            out.push(Case::Table(t2));
                        }
                    }
                    for d in [n / 2, n / 4, 1] {
                        if d > 0 && d < n {
                            let mut t2 = t.clone();
                            t2.starts.drain(0..d);
                            t2.ends.drain(0..d);
                            for e in &mut t2.events {
                                if let TEv::Start { i, .. } | TEv::End { i, .. } = e {
                                    if *i >= d as u64 && *i < (1 << 40) {
                                        *i -= d as u64;
                                    }
                                }
                            }
                            out.push(Case::Table(t2));
                        }
                    }
                    // all ends unrecorded
                    if t.ends.iter().any(|&e| e > 0) {
                        let mut t2 = t.clone();
                        for e in &mut t2.ends {
                            *e = 0;
                        }
                        out.push(Case::Table(t2));
                    }
                    // all starts zero-based: shift positions down by the minimum start, 64 at a time
                    let min = t.starts.iter().copied().min().unwrap_or(0);
                    let shift = (min / 64) * 64;
                    if shift > 0 && t.ends.iter().all(|&e| e == 0 || e >= shift) {
                        let mut t2 = t.clone();
                        for s in &mut t2.starts {
                            *s -= shift;
                        }
                        for e in &mut t2.ends {
                            if *e > 0 {
                                *e -= shift;
                                if *e == 0 {
                                    *e = 1;
                                }
                            }
                        }
                        t2.text_len -= shift as u64;
                        out.push(Case::Table(t2));
                    }
                    // halve gaps between starts (keeps monotonicity), text_len unchanged
                    if t.starts.windows(2).all(|w| w[0] <= w[1]) && t.starts.windows(2).any(|w| w[1] - w[0] > 1) && t.ends.iter().all(|&e| e == 0) {
                        let mut t2 = t.clone();
                        let mut acc = t.starts[0];
                        for i in 1..n {
                            acc += (t.starts[i] - t.starts[i - 1]) / 2;
                            t2.starts[i] = acc;
                        }
                        out.push(Case::Table(t2));
                    }
                }
                // shrink text_len down to the largest position (keeping its residue mod 64)
                let maxpos = t.starts.iter().chain(t.ends.iter()).copied().max().unwrap_or(0) as u64;
                if t.text_len > maxpos {
                    for cand in [maxpos, maxpos + (t.text_len - maxpos) % 64, (t.text_len + maxpos) / 2] {
                        if cand < t.text_len && cand >= maxpos {
                            let mut t2 = t.clone();
                            t2.text_len = cand;
                            out.push(Case::Table(t2));
                        }
                    }
                }
                for (idx, e) in t.events.iter().enumerate() {
                    if let TEv::Start { c, r, i, via_bp } = e {
                        if *i > 0 {
                            for cand in [*i / 2, *i - 1] {
                                let mut t2 = t.clone();
                                t2.events[idx] = TEv::Start { c: *c, r: *r, i: cand, via_bp: *via_bp };
                                out.push(Case::Table(t2));
                            }
                        }
                    }
                    if let TEv::End { c, r, i, via_bp } = e {
                        if *i > 0 {
                            for cand in [*i / 2, *i - 1] {
                                let mut t2 = t.clone();
                                t2.events[idx] = TEv::End { c: *c, r: *r, i: cand, via_bp: *via_bp };
                                out.push(Case::Table(t2));
                            }
                        }
                    }
                }
            }
            Case::Doc(d) => {
                // drop trailing lines / a middle line of the document
                let lines: Vec<&[u8]> = d.text.split_inclusive(|&b| b == b'\n').collect();
                let nl = lines.len();
                if nl > 1 {
                    for cut in [nl / 2, nl - 1] {
                        let mut d2 = d.clone();
                        d2.text = lines[..cut].concat();
                        out.push(Case::Doc(d2));
                    }
                    for drop in [nl / 2, 0, nl - 1, nl / 3] {
                        if drop < nl {
                            let mut d2 = d.clone();
                            d2.text = lines.iter().enumerate().filter(|(i, _)| *i != drop).map(|(_, l)| l.to_vec()).collect::<Vec<_>>().concat();
                            out.push(Case::Doc(d2));
                        }
                    }
                }
                if d.events.iter().any(|e| matches!(e, DEv::Child{c}|DEv::Sib{c}|DEv::Parent{c}|DEv::Jump{c,..}|DEv::Json{c}|DEv::Raw{c}|DEv::Locate{c,..} if *c != 0)) {
                    // not sound to merge clients (each has its own position); skip
                }
                for (idx, e) in d.events.iter().enumerate() {
                    if let DEv::Jump { c, k } = e {
                        if *k > 0 {
                            for cand in [*k / 2, *k - 1] {
                                let mut d2 = d.clone();
                                d2.events[idx] = DEv::Jump { c: *c, k: cand };
                                out.push(Case::Doc(d2));
                            }
                        }
                    }
                }
            }
        }
        out
    }

    fn fingerprint(&self, case: &Case) -> (u64, u64) {
        let mut d = Fnv::default();
        let mut s = Fnv::default();
        match case {
            Case::Table(t) => {
                d.u64(1);
                d.u64(t.text_len);
                for x in &t.starts {
                    d.u64(*x as u64);
                }
                d.u64(u64::MAX);
                for x in &t.ends {
                    d.u64(*x as u64);
                }
                for e in &t.events {
                    match e {
                        TEv::Start { c, r, i, via_bp } => {
                            s.u64(1 + 2 * u64::from(*via_bp));
                            s.u64(*c as u64 | (*r as u64) << 8);
                            s.u64(*i);
                        }
                        TEv::End { c, r, i, via_bp } => {
                            s.u64(2 + 2 * u64::from(*via_bp));
                            s.u64(*c as u64 | (*r as u64) << 8);
                            s.u64(*i);
                        }
                        TEv::Restart { r } => {
                            s.u64(7);
                            s.u64(*r as u64);
                        }
                        TEv::Fork { r } => {
                            s.u64(8);
                            s.u64(*r as u64);
                        }
                    }
                }
            }
            Case::Doc(dc) => {
                d.u64(2);
                d.bytes(&dc.text);
                s.bytes(serde_json::to_string(&dc.events).unwrap_or_default().as_bytes());
            }
        }
        (d.0, s.0)
    }

    fn sample(&self, case: &Case) -> Value {
        match case {
            Case::Table(t) => json!({
                "target": "table (YamlIndex::from_parts)",
                "parser_like": t.parser_like,
                "policy": t.policy,
                "text_len": t.text_len,
                "n": t.starts.len(),
                "starts_prefix": t.starts.iter().take(16).collect::<Vec<_>>(),
                "ends_prefix": t.ends.iter().take(16).collect::<Vec<_>>(),
                "n_events": t.events.len(),
                "events_prefix": t.events.iter().take(10).collect::<Vec<_>>(),
            }),
            Case::Doc(d) => json!({
                "target": "doc (YamlIndex::build + cursor API)",
                "policy": d.policy,
                "text": String::from_utf8_lossy(&d.text).chars().take(300).collect::<String>(),
                "n_events": d.events.len(),
                "events_prefix": d.events.iter().take(12).collect::<Vec<_>>(),
            }),
        }
    }

    fn rule(&self) -> String {
        "80% table runs: seeded (text_len, starts, ends) -- monotone with duplicate runs, non-monotone (Dense fallback), positions == text_len, text_len = 0/1/63/64/65 (mod 64), \
         element counts around 64/128/256/512 and up to 4000 quick / 20000 thorough, clusters separated by >= 512 empty bytes, leading/interior/trailing unrecorded ends, \
         parser-like (every recorded end <= start of every later node) or adversarial -- reach the real tables through YamlIndex::from_parts; 1-4 clients \
         (sequential, gap walker, back-jumper, repeater, decode-then-rewind, edge prober; start and/or end lookups, by open index or through BP rank) are interleaved by a seeded policy \
         with restart/fork faults; the oracle is the recorded vectors. 20% document runs: generated YAML (block/flow, anchors, aliases, merge keys, explicit keys, empty values at EOF, multi-doc) \
         through YamlIndex::build, clients navigate with first_child/next_sibling/parent/jump, to_json, raw_bytes, find_bp_at_text_pos; every answer must equal what a fresh clone (cold caches) \
         answers to the same single question, and positions must equal a fresh clone's strictly sequential table. Non-trivial: (>= 2 clients or >= 1 restart/fork) and >= 3 access classes (table) \
         / >= 2 operation kinds (doc). distinct_nontrivial = set bits in a one-hash bit table over hash(data) x hash(events): a lower bound."
            .into()
    }

    fn real_vs_stub(&self) -> Value {
        json!({
            "real": ["YamlIndex::{from_parts,build,clone,text_pos_by_open_idx,text_end_pos_by_open_idx,bp_to_text_pos,bp_to_text_end_pos,bp_to_open_idx,find_bp_at_text_pos,root}",
                     "OpenPositions/AdvancePositions::{build,get,get_sequential,get_random,find_last_open_at_text_pos} and EndPositions/CompactEndPositions::{build,get} (through YamlIndex)",
                     "YamlCursor::{new,first_child,next_sibling,parent,text_position,text_end_position,value,to_json,raw_bytes} incl. alias and merge-key resolution",
                     "BalancedParens rank/navigation (through YamlIndex)"],
            "stub": ["table runs: IB / TY / containers bitmaps are empty and BP is n opens followed by n closes (only rank1 is used)",
                     "yq evaluator and CLI are replaced by simulated traversal clients"],
            "model": "table runs: the recorded Vec<u32> pair; doc runs: a fresh clone of the same index asked the same single question"
        })
    }

    fn assumptions(&self) -> Vec<String> {
        vec![
            "positions are <= text_len (what the parser records); both vectors have one entry per node".into(),
            "for a node without a recorded end the oracle accepts None or any end recorded for an earlier node; with parser-like data every such end is at or before the node's start, so the statement's 'at or before its start' clause follows. On adversarial data (an end beyond a later node's start, which the parser's set_bp_text_end assertion rules out) that clause is not demanded".into(),
            "doc runs use the sequential answers of a fresh clone as the reference; table runs are what ties sequential answers to recorded data".into(),
            "YamlIndex is !Sync (asserted at build time)".into(),
        ]
    }
}
