//! C31 — index serialization round-trips and tolerates any byte alignment.
//!
//! The simulated deployment workflow: build an index from seeded data ->
//! `words_to_bytes` -> write to a simulated disk -> read back into a fresh
//! `Vec<u8>` whose *placement the allocator chooses* (SimAlloc, residue k mod 8)
//! -> `bytes_to_words_vec` / `try_bytes_to_words` / `bytes_to_words`, also on
//! sub-slices at every header offset 0..7 -> rebuild with `from_words` /
//! `from_parts` -> the rebuilt object must answer like the original.
//! All 8 placements x 3 entry points x 8 header offsets are enumerated for
//! every data set; data sets are seeded.

use std::collections::BTreeMap;
use std::panic::{catch_unwind, AssertUnwindSafe};

use serde::{Deserialize, Serialize};
use serde_json::{json, Value};

use succinctly::binary::{bytes_to_words, bytes_to_words_vec, try_bytes_to_words, words_to_bytes};
use succinctly::json::JsonIndex;
use succinctly::trees::{BalancedParens, SelectSupport};
use succinctly::{BitVec, RankSelect};

use crate::alloc;
use crate::core::{matches_known, normalise, take_last_panic, Failure, Fnv, KnownFinding, Obs, Rng, Scenario, Tier};

#[derive(Clone, Debug, Serialize, Deserialize)]
pub enum Data {
    /// A raw word vector.
    Words { words: Vec<u64> },
    /// A bit vector of `len` bits.
    Bits { words: Vec<u64>, len: u64 },
    /// Balanced parentheses of `len` bits.
    Parens { words: Vec<u64>, len: u64 },
    /// A JSON document (IB and BP are serialized).
    Json { text: Vec<u8> },
}

#[derive(Clone, Debug, Serialize, Deserialize)]
pub struct Case {
    pub data: Data,
    /// Seed of the query batch asked of original and rebuilt index.
    pub qseed: u64,
}

pub const REACH: &[&str] = &[
    "data_words",             // 0
    "data_bits",              // 1
    "data_parens",            // 2
    "data_json",              // 3
    "empty_vector",           // 4
    "placement_misaligned",   // 5 read-back buffer really placed at residue != 0
    "placement_aligned",      // 6
    "header_offset_misaligned", // 7
    "vec_ok",                 // 8
    "try_some_ok",            // 9
    "try_none_bad_len",       // 10
    "borrow_ok",              // 11
    "rebuilt_queries_equal",  // 12
    "zero_copy_rebuild",      // 13 borrowed &[u64] from the placed buffer fed to from_parts/from_words
    "known_failure_seen",     // 14
    "semi_index_from_bytes",  // 15 standard/simple SemiIndex::from_bytes on placed buffers
    "empty_slice_misaligned_pointer", // 16 zero-length slice whose (dangling) pointer is not 8-aligned
];
const R_WORDS: usize = 0;
const R_BITS: usize = 1;
const R_PARENS: usize = 2;
const R_JSON: usize = 3;
const R_EMPTY: usize = 4;
const R_MISAL: usize = 5;
const R_AL: usize = 6;
const R_HDR: usize = 7;
const R_VEC: usize = 8;
const R_TRY: usize = 9;
const R_TRY_NONE: usize = 10;
const R_BORROW: usize = 11;
const R_REBUILT: usize = 12;
const R_ZC: usize = 13;
const R_KNOWN: usize = 14;
const R_SEMI: usize = 15;
const R_EMPTY_MISAL: usize = 16;

pub const FAULTS: &[&str] = &[
    "placement_1", "placement_2", "placement_3", "placement_4", "placement_5", "placement_6", "placement_7",
    "placement_0", "bad_length",
];

pub struct C31 {
    pub known: Vec<KnownFinding>,
}

// ------------------------------------------------------------- generation --

fn gen_words(rng: &mut Rng, n: usize) -> Vec<u64> {
    let style = rng.below(6);
    (0..n)
        .map(|i| match style {
            0 => rng.next_u64(),
            1 => 0,
            2 => u64::MAX,
            3 => rng.next_u64() & rng.next_u64() & rng.next_u64(), // sparse
            4 => (i as u64).wrapping_mul(0x0123_4567_89AB_CDEF),
            _ => {
                if rng.chance(1, 4) {
                    rng.next_u64()
                } else {
                    0
                }
            }
        })
        .collect()
}

fn gen_len(rng: &mut Rng, tier: Tier) -> usize {
    match rng.weighted(&[4, 10, 30, 30, 20, 6]) {
        0 => 0,
        1 => 1,
        2 => rng.urange(2, 9),
        3 => rng.urange(9, 40),
        4 => rng.urange(40, 200),
        _ => {
            if tier == Tier::Thorough {
                rng.urange(200, 3000)
            } else {
                rng.urange(200, 600)
            }
        }
    }
}

fn gen_parens(rng: &mut Rng, pairs: usize) -> (Vec<u64>, usize) {
    // random balanced sequence: 1 = open, 0 = close. The open-probability is re-drawn per
    // segment so that deep nests (find_close across many blocks), flat runs "()()()" and
    // random walks all occur.
    let len = pairs * 2;
    let mut words = vec![0u64; len.div_ceil(64)];
    let mut open = 0usize; // currently open
    let mut opens_left = pairs;
    let mut p_open: u64 = 50;
    for i in 0..len {
        if i % 97 == 0 {
            p_open = *rng.pick(&[50u64, 50, 92, 8, 99, 1, 70, 30]);
        }
        let must_open = open == 0;
        let must_close = opens_left == 0;
        let do_open = if must_open {
            true
        } else if must_close {
            false
        } else {
            rng.below(100) < p_open
        };
        if do_open {
            words[i / 64] |= 1 << (i % 64);
            open += 1;
            opens_left -= 1;
        } else {
            open -= 1;
        }
    }
    (words, len)
}

fn gen_json(rng: &mut Rng) -> Vec<u8> {
    fn val(rng: &mut Rng, out: &mut Vec<u8>, depth: u32, budget: &mut i32) {
        *budget -= 1;
        let kind = if depth > 5 || *budget <= 0 { rng.below(5) } else { rng.below(8) };
        match kind {
            0 => out.extend_from_slice(format!("{}", rng.below(100000)).as_bytes()),
            1 => out.extend_from_slice(format!("\"s{}\"", rng.below(100)).as_bytes()),
            2 => out.extend_from_slice(b"true"),
            3 => out.extend_from_slice(b"null"),
            4 => out.extend_from_slice(b"\"a\\\"b\\\\\""),
            5 | 6 => {
                out.push(b'[');
                let n = rng.urange(0, 6);
                for i in 0..n {
                    if i > 0 {
                        out.push(b',');
                        if rng.chance(1, 3) {
                            out.push(b' ');
                        }
                    }
                    val(rng, out, depth + 1, budget);
                }
                out.push(b']');
            }
            _ => {
                out.push(b'{');
                let n = rng.urange(0, 5);
                for i in 0..n {
                    if i > 0 {
                        out.push(b',');
                        if rng.chance(1, 3) {
                            out.push(b'\n');
                        }
                    }
                    out.extend_from_slice(format!("\"k{i}\":").as_bytes());
                    val(rng, out, depth + 1, budget);
                }
                out.push(b'}');
            }
        }
    }
    let mut out = Vec::new();
    let mut budget = if rng.chance(1, 10) { rng.urange(200, 3000) } else { rng.urange(1, 200) } as i32;
    val(rng, &mut out, 0, &mut budget);
    // one document in five is padded with trailing blanks to a multiple of 64 bytes
    // (the interest-bit vector then ends exactly on a word boundary)
    if rng.chance(1, 5) {
        while out.len() % 64 != 0 {
            out.push(b' ');
        }
        if rng.chance(1, 2) && !out.is_empty() {
            // ... or ends with a value exactly at the boundary
            let n = out.len();
            if n >= 4 && out[n - 1] == b' ' && out[n - 2] == b' ' {
                out.insert(0, b'[');
                out.pop();
                out[n - 1] = b']';
            }
        }
    }
    out
}

// -------------------------------------------------------------- execution --

struct Fails {
    all: Vec<Failure>,
}

impl Fails {
    fn push(&mut self, function: &str, alignment: usize, how: &str, class: String, extra: Value) {
        let mut detail = json!({
            "function": function,
            "alignment": alignment,
            "how": how,
        });
        if let (Value::Object(d), Value::Object(e)) = (&mut detail, extra) {
            for (k, v) in e {
                d.insert(k, v);
            }
        }
        self.all.push(Failure {
            class,
            seq: 0,
            detail,
        });
    }
}

fn merge(a: &Value, b: Value) -> Value {
    let mut out = a.clone();
    if let (Value::Object(o), Value::Object(e)) = (&mut out, b) {
        for (k, v) in e {
            o.insert(k, v);
        }
    }
    out
}

fn caught<T>(f: impl FnOnce() -> T) -> Result<T, String> {
    match catch_unwind(AssertUnwindSafe(f)) {
        Ok(v) => Ok(v),
        Err(_) => {
            let msg = take_last_panic().unwrap_or_default();
            let head = msg.split(" @ ").next().unwrap_or("").to_string();
            Err(format!("panic:{}", normalise(&head)))
        }
    }
}

/// The three entry points on one byte slice whose length is a multiple of 8.
fn check_slice(bytes: &[u8], want: &[u64], how: &str, obs: &mut Obs, fails: &mut Fails) -> Option<Vec<u64>> {
    let al = bytes.as_ptr() as usize % 8;
    let mut owned = None;
    // `nonempty` separates the recorded known findings (a misaligned NON-EMPTY slice cannot
    // be borrowed as &[u64]) from an empty slice, which every entry point must accept.
    let shape = json!({"len": bytes.len(), "nonempty": !bytes.is_empty()});
    if bytes.is_empty() && al != 0 {
        obs.reach.hit(R_EMPTY_MISAL);
    }
    match caught(|| bytes_to_words_vec(bytes)) {
        Ok(v) => {
            if v == want {
                obs.reach.hit(R_VEC);
                owned = Some(v);
            } else {
                fails.push("bytes_to_words_vec", al, how, "mismatch:bytes_to_words_vec".into(), merge(&shape, json!({"got_len": v.len(), "want_len": want.len()})));
            }
        }
        Err(class) => fails.push("bytes_to_words_vec", al, how, class, shape.clone()),
    }
    match caught(|| try_bytes_to_words(bytes).map(<[u64]>::to_vec)) {
        Ok(Some(v)) => {
            if v == want {
                obs.reach.hit(R_TRY);
            } else {
                fails.push("try_bytes_to_words", al, how, "mismatch:try_bytes_to_words".into(), shape.clone());
            }
        }
        Ok(None) => fails.push("try_bytes_to_words", al, how, "mismatch:try_bytes_to_words_none_for_good_length".into(), shape.clone()),
        Err(class) => fails.push("try_bytes_to_words", al, how, class, shape.clone()),
    }
    match caught(|| bytes_to_words(bytes).to_vec()) {
        Ok(v) => {
            if v == want {
                obs.reach.hit(R_BORROW);
            } else {
                fails.push("bytes_to_words", al, how, "mismatch:bytes_to_words".into(), shape.clone());
            }
        }
        Err(class) => fails.push("bytes_to_words", al, how, class, shape.clone()),
    }
    owned
}

fn bad_length(bytes: &[u8], obs: &mut Obs, fails: &mut Fails) {
    if bytes.len() % 8 == 0 {
        return;
    }
    let al = bytes.as_ptr() as usize % 8;
    obs.faults.hit(8);
    match caught(|| try_bytes_to_words(bytes).map(<[u64]>::len)) {
        Ok(None) => obs.reach.hit(R_TRY_NONE),
        Ok(Some(_)) => fails.push("try_bytes_to_words", al, "bad_length", "mismatch:try_bytes_to_words_some_for_bad_length".into(), json!({"len": bytes.len()})),
        Err(class) => fails.push("try_bytes_to_words", al, "bad_length", class, json!({"len": bytes.len()})),
    }
}

fn queries_bits(orig: &BitVec, re: &BitVec, rng: &mut Rng) -> Result<(), String> {
    if orig.len() != re.len() || orig.count_ones() != re.count_ones() {
        return Err("len/count_ones".into());
    }
    let n = orig.len();
    let ones = orig.count_ones();
    if orig.count_zeros() != re.count_zeros() {
        return Err("count_zeros".into());
    }
    // block boundaries of the rank directory / select samples, and the end of the vector
    let mut edges: Vec<usize> = Vec::new();
    for b in [64usize, 512, 4096] {
        let mut p = b;
        while p <= n + b && edges.len() < 400 {
            edges.extend([p - 1, p, p + 1]);
            p += b * (1 + rng.usize_below(3));
        }
    }
    edges.extend([n.saturating_sub(1), n, n + 1, n + 64, n + 1000]);
    for &i in &edges {
        if orig.rank1(i) != re.rank1(i) || orig.rank0(i) != re.rank0(i) {
            return Err(format!("rank_edge({i})"));
        }
        if i < n && orig.get(i) != re.get(i) {
            return Err(format!("get_edge({i})"));
        }
    }
    for k in [0usize, 1, 63, 64, 255, 256, 257, 511, 512, 513, 1023, 1024, ones.saturating_sub(1), ones, ones + 1] {
        if orig.select1(k) != re.select1(k) || orig.select0(k) != re.select0(k) {
            return Err(format!("select_edge({k})"));
        }
    }
    for q in 0..48 {
        let i = match q {
            0 => 0,
            1 => n,
            2 => n.saturating_sub(1),
            3 => n + 5,
            _ => rng.usize_below(n + 2),
        };
        if orig.rank1(i) != re.rank1(i) || orig.rank0(i) != re.rank0(i) {
            return Err(format!("rank({i})"));
        }
        if i < n && orig.get(i) != re.get(i) {
            return Err(format!("get({i})"));
        }
        let k = if q % 2 == 0 { rng.usize_below(ones + 2) } else { q };
        if orig.select1(k) != re.select1(k) || orig.select0(k) != re.select0(k) {
            return Err(format!("select({k})"));
        }
    }
    Ok(())
}

fn queries_bp<A: AsRef<[u64]>, B: AsRef<[u64]>, S1: SelectSupport, S2: SelectSupport>(
    orig: &BalancedParens<A, S1>,
    re: &BalancedParens<B, S2>,
    rng: &mut Rng,
) -> Result<(), String> {
    if orig.len() != re.len() {
        return Err("len".into());
    }
    let n = orig.len();
    // positions at and past the end (padding bits of the last word, and beyond the words)
    for p in n..n + 70 {
        let a = caught(|| (orig.is_open(p), orig.is_close(p), orig.find_close(p), orig.first_child(p), orig.next_sibling(p), orig.parent(p)));
        let b = caught(|| (re.is_open(p), re.is_close(p), re.find_close(p), re.first_child(p), re.next_sibling(p), re.parent(p)));
        if a != b {
            return Err(format!("past_end({p})"));
        }
    }
    // every node whose close is among the last few valid bits (its next_sibling looks past the end)
    for p in 0..n.min(4096) {
        if orig.is_open(p) {
            if let Some(c) = orig.find_close(p) {
                if c + 3 >= n && (orig.next_sibling(p) != re.next_sibling(p) || orig.first_child(p) != re.first_child(p)) {
                    return Err(format!("navigation_at_end({p})"));
                }
            }
        }
    }
    let ones = orig.total_ones();
    if ones != re.total_ones() {
        return Err("total_ones".into());
    }
    for k in [0usize, 1, 63, 64, 255, 256, 257, 511, 512, 513, ones / 2, ones.saturating_sub(1), ones, ones + 1] {
        if orig.select1(k) != re.select1(k) || orig.select0(k) != re.select0(k) {
            return Err(format!("select({k})"));
        }
    }
    let mut probe: Vec<usize> = vec![0, n.saturating_sub(1), n];
    for b in [64usize, 512, 4096, 32768] {
        let mut p = b;
        while p < n + 2 && probe.len() < 300 {
            probe.extend([p - 1, p, p + 1]);
            p += b * (1 + rng.usize_below(4));
        }
    }
    for _ in 0..64 {
        probe.push(rng.usize_below(n + 1));
    }
    for p in probe {
        if orig.rank1(p) != re.rank1(p) {
            return Err(format!("rank1({p})"));
        }
        if p < n {
            if orig.is_open(p) != re.is_open(p)
                || orig.find_close(p) != re.find_close(p)
                || orig.find_open(p) != re.find_open(p)
                || orig.enclose(p) != re.enclose(p)
                || orig.first_child(p) != re.first_child(p)
                || orig.next_sibling(p) != re.next_sibling(p)
                || orig.parent(p) != re.parent(p)
                || orig.excess(p) != re.excess(p)
                || orig.depth(p) != re.depth(p)
                || orig.subtree_size(p) != re.subtree_size(p)
            {
                return Err(format!("navigation({p})"));
            }
        }
    }
    Ok(())
}

fn queries_json<A: AsRef<[u64]>, B: AsRef<[u64]>>(orig: &JsonIndex<A>, re: &JsonIndex<B>, text: &[u8], rng: &mut Rng) -> Result<(), String> {
    if orig.ib_len() != re.ib_len() || orig.ib() != re.ib() || orig.bp().len() != re.bp().len() {
        return Err("parts".into());
    }
    queries_bp(orig.bp(), re.bp(), rng)?;
    // full DFS with both cursors
    let mut stack = vec![(orig.root(text), re.root(text))];
    let mut visited = 0;
    while let Some((a, b)) = stack.pop() {
        visited += 1;
        if visited > 5000 {
            break;
        }
        if a.bp_position() != b.bp_position()
            || a.text_position() != b.text_position()
            || a.text_range() != b.text_range()
            || a.raw_bytes() != b.raw_bytes()
            || a.is_container() != b.is_container()
            || a.parent().map(|c| c.bp_position()) != b.parent().map(|c| c.bp_position())
        {
            return Err(format!("cursor at bp {}", a.bp_position()));
        }
        match (a.next_sibling(), b.next_sibling()) {
            (Some(x), Some(y)) => stack.push((x, y)),
            (None, None) => {}
            _ => return Err(format!("next_sibling at bp {}", a.bp_position())),
        }
        match (a.first_child(), b.first_child()) {
            (Some(x), Some(y)) => stack.push((x, y)),
            (None, None) => {}
            _ => return Err(format!("first_child at bp {}", a.bp_position())),
        }
    }
    let n = text.len();
    for _ in 0..32 {
        let p = rng.usize_below(n + 2);
        if orig.ib_rank1(p.min(n)) != re.ib_rank1(p.min(n)) {
            return Err(format!("ib_rank1({p})"));
        }
        let k = rng.usize_below(n / 2 + 2);
        if orig.ib_select1(k) != re.ib_select1(k) {
            return Err(format!("ib_select1({k})"));
        }
        if orig.to_line_column(p, text) != re.to_line_column(p, text) {
            return Err(format!("to_line_column({p})"));
        }
    }
    Ok(())
}

impl C31 {
    fn run_case(&self, case: &Case, obs: &mut Obs) -> Vec<Failure> {
        let mut fails = Fails { all: Vec::new() };
        // ---- build originals and the files to serialise ----
        let mut disk: BTreeMap<&'static str, Vec<u8>> = BTreeMap::new();
        let (main_words, aux): (Vec<u64>, Option<(Vec<u64>, usize, usize)>) = match &case.data {
            Data::Words { words } => {
                obs.reach.hit(R_WORDS);
                (words.clone(), None)
            }
            Data::Bits { words, .. } => {
                obs.reach.hit(R_BITS);
                (words.clone(), None)
            }
            Data::Parens { words, .. } => {
                obs.reach.hit(R_PARENS);
                (words.clone(), None)
            }
            Data::Json { text } => {
                obs.reach.hit(R_JSON);
                let ix = JsonIndex::build(text);
                let bp_words = ix.bp().words().to_vec();
                (ix.ib().to_vec(), Some((bp_words, ix.ib_len(), ix.bp().len())))
            }
        };
        if main_words.is_empty() {
            obs.reach.hit(R_EMPTY);
        }
        alloc::set_placement(0);
        disk.insert("main", words_to_bytes(&main_words).to_vec());
        if let Some((bp, _, _)) = &aux {
            disk.insert("bp", words_to_bytes(bp).to_vec());
        }

        // ---- enumerate placements ----
        for k in 0u8..8 {
            alloc::set_placement(k);
            // "read the file back": a fresh byte buffer the allocator places
            let buf: Vec<u8> = disk["main"].clone();
            let buf_bp: Option<Vec<u8>> = disk.get("bp").cloned();
            alloc::set_placement(0);
            let al = buf.as_ptr() as usize % 8;
            if !buf.is_empty() {
                if al != k as usize {
                    fails.push("harness", al, "placement", "harness:placement-not-effective".into(), json!({"wanted": k}));
                    return fails.all;
                }
                if k == 0 {
                    obs.faults.hit(7);
                    obs.reach.hit(R_AL);
                } else {
                    obs.faults.hit(k as usize - 1);
                    obs.reach.hit(R_MISAL);
                }
            }
            let how = "read_back_buffer";
            let owned = check_slice(&buf, &main_words, how, obs, &mut fails);
            // bad lengths on the placed buffer
            if buf.len() >= 8 {
                let cut = 1 + (case.qseed as usize + k as usize) % 7;
                bad_length(&buf[..buf.len() - cut], obs, &mut fails);
            }
            // ---- rebuild from the words read back and compare queries ----
            let mut qrng = Rng::new(case.qseed ^ k as u64);
            let owned_bp = buf_bp.as_ref().and_then(|b| {
                let want = &aux.as_ref().unwrap().0;
                check_slice(b, want, "read_back_buffer_bp", obs, &mut fails)
            });
            if let Some(w) = owned {
                let res: Result<Result<(), String>, String> = caught(|| match &case.data {
                    Data::Words { .. } => Ok(()),
                    Data::Bits { words, len } => {
                        let orig = BitVec::from_words(words.clone(), *len as usize);
                        let re = BitVec::from_words(w.clone(), *len as usize);
                        queries_bits(&orig, &re, &mut qrng)
                    }
                    Data::Parens { words, len } => {
                        let orig = BalancedParens::new(words.clone(), *len as usize);
                        let re = BalancedParens::from_words(w.clone(), *len as usize);
                        queries_bp(&orig, &re, &mut qrng)?;
                        // the select-supporting variants: owned vs rebuilt from words
                        let oc = BalancedParens::new_with_cspoppy(words.clone(), *len as usize);
                        let rc = BalancedParens::from_words_with_cspoppy(w.clone(), *len as usize);
                        queries_bp(&oc, &rc, &mut qrng).map_err(|e| format!("cspoppy:{e}"))?;
                        let os = BalancedParens::new_with_select(words.clone(), *len as usize);
                        let rs = BalancedParens::from_words_with_select(w.clone(), *len as usize);
                        queries_bp(&os, &rs, &mut qrng).map_err(|e| format!("select:{e}"))?;
                        // zero-copy variant when the buffer happens to be aligned
                        if al == 0 && !buf.is_empty() {
                            let borrowed: &[u64] = bytes_to_words(&buf);
                            let zc = BalancedParens::from_words(borrowed, *len as usize);
                            obs.reach.hit(R_ZC);
                            queries_bp(&orig, &zc, &mut qrng)?;
                        }
                        Ok(())
                    }
                    Data::Json { text } => {
                        let orig = JsonIndex::build(text);
                        let (_, ib_len, bp_len) = aux.as_ref().unwrap();
                        let Some(bpw) = owned_bp.clone() else {
                            return Ok(());
                        };
                        let re = JsonIndex::from_parts(w.clone(), *ib_len, bpw, *bp_len);
                        queries_json(&orig, &re, text, &mut qrng)?;
                        if al == 0 && !buf.is_empty() {
                            if let Some(bb) = &buf_bp {
                                if bb.as_ptr() as usize % 8 == 0 {
                                    let zc: JsonIndex<&[u64]> =
                                        JsonIndex::from_parts(bytes_to_words(&buf), *ib_len, bytes_to_words(bb), *bp_len);
                                    obs.reach.hit(R_ZC);
                                    queries_json(&orig, &zc, text, &mut qrng)?;
                                }
                            }
                        }
                        Ok(())
                    }
                });
                match res {
                    Ok(Ok(())) => obs.reach.hit(R_REBUILT),
                    Ok(Err(what)) => fails.push("rebuild", al, how, "mismatch:rebuilt_index_query".into(), json!({"query": what})),
                    Err(class) => fails.push("rebuild", al, how, class, json!({})),
                }
            }
        }

        // ---- the semi-index serialisation helpers (standard / simple) on placed buffers ----
        if let Data::Json { text } = &case.data {
            use succinctly::json::{simple, standard};
            let st = standard::build_semi_index(text);
            let si = simple::build_semi_index(text);
            let files: [(&[u8], &[u8]); 2] = [(st.ib_as_bytes(), st.bp_as_bytes()), (si.ib_as_bytes(), si.bp_as_bytes())];
            for kk in 0u8..64 {
                // the two files are read into independently placed buffers
                let (k, k_bp) = (kk / 8, kk % 8);
                for (which, (ibb, bpb)) in files.iter().enumerate() {
                    alloc::set_placement(k);
                    let ib_buf: Vec<u8> = ibb.to_vec();
                    alloc::set_placement(k_bp);
                    let bp_buf: Vec<u8> = bpb.to_vec();
                    alloc::set_placement(0);
                    let al = ib_buf.as_ptr() as usize % 8;
                    let res = caught(|| {
                        if which == 0 {
                            let re = standard::SemiIndex::from_bytes(&ib_buf, &bp_buf);
                            re.ib == st.ib && re.bp == st.bp
                        } else {
                            let re = simple::SemiIndex::from_bytes(&ib_buf, &bp_buf);
                            re.ib == si.ib && re.bp == si.bp
                        }
                    });
                    let f = if which == 0 { "standard::SemiIndex::from_bytes" } else { "simple::SemiIndex::from_bytes" };
                    match res {
                        Ok(true) => obs.reach.hit(R_SEMI),
                        Ok(false) => fails.push(f, al, "read_back_buffers_placed_independently", "mismatch:semi_index_from_bytes".into(), json!({"bp_alignment": bp_buf.as_ptr() as usize % 8})),
                        Err(class) => fails.push(f, al, "read_back_buffers_placed_independently", class, json!({"bp_alignment": bp_buf.as_ptr() as usize % 8})),
                    }
                }
            }
        }

        // ---- mmap-with-header: sub-slices at every offset of an aligned buffer ----
        alloc::set_placement(0);
        let payload = &disk["main"];
        for o in 0usize..8 {
            let mut file = vec![0xEEu8; o];
            file.extend_from_slice(payload);
            let slice = &file[o..];
            if !slice.is_empty() && slice.as_ptr() as usize % 8 != 0 {
                obs.reach.hit(R_HDR);
            }
            check_slice(slice, &main_words, "sub_slice_after_header", obs, &mut fails);
        }
        // ---- zero-length slices at every residue, and the dangling pointer of an empty Vec ----
        // (0 is a multiple of 8: an empty index file, the BP part of a whitespace-only document)
        let backing = vec![0u8; 16];
        for o in 0usize..8 {
            check_slice(&backing[o..o], &[], "empty_sub_slice", obs, &mut fails);
        }
        let empty_vec: Vec<u8> = Vec::new();
        check_slice(&empty_vec, &[], "empty_vec", obs, &mut fails);
        fails.all
    }
}

impl Scenario for C31 {
    type Case = Case;

    fn property(&self) -> &'static str {
        "C31"
    }
    fn engine(&self) -> &'static str {
        "placesim/c31"
    }
    fn reach_names(&self) -> &'static [&'static str] {
        REACH
    }
    fn fault_names(&self) -> &'static [&'static str] {
        FAULTS
    }
    fn required_reach(&self) -> &'static [&'static str] {
        &[
            "data_words",
            "data_bits",
            "data_parens",
            "data_json",
            "empty_vector",
            "placement_misaligned",
            "placement_aligned",
            "header_offset_misaligned",
            "vec_ok",
            "try_some_ok",
            "try_none_bad_len",
            "borrow_ok",
            "rebuilt_queries_equal",
            "zero_copy_rebuild",
            "semi_index_from_bytes",
            "empty_slice_misaligned_pointer",
        ]
    }

    fn generate(&self, rng: &mut Rng, tier: Tier) -> Case {
        let data = match rng.weighted(&[30, 25, 25, 20]) {
            0 => {
                let n = gen_len(rng, tier);
                Data::Words { words: gen_words(rng, n) }
            }
            1 => {
                let n = gen_len(rng, tier);
                let words = gen_words(rng, n);
                let len = if n == 0 { 0 } else { (n - 1) * 64 + rng.urange(1, 64) };
                Data::Bits { words, len: len as u64 }
            }
            2 => {
                let pairs = gen_len(rng, tier) * 8 + rng.urange(0, 40);
                let (mut words, len) = gen_parens(rng, pairs);
                // A file written by another tool may carry garbage above `len` in its last
                // word; the owned constructor masks it, a borrowed one has to ignore it.
                if len % 64 != 0 && rng.chance(1, 2) {
                    let keep = (1u64 << (len % 64)) - 1;
                    let garbage = match rng.below(3) {
                        0 => u64::MAX,
                        1 => 1u64 << (len % 64), // just the first padding bit
                        _ => rng.next_u64(),
                    };
                    if let Some(last) = words.last_mut() {
                        *last = (*last & keep) | (garbage & !keep);
                    }
                }
                Data::Parens { words, len: len as u64 }
            }
            _ => Data::Json { text: gen_json(rng) },
        };
        Case {
            data,
            qseed: rng.next_u64(),
        }
    }

    fn execute(&self, case: &Case, obs: &mut Obs) -> Result<(), Failure> {
        obs.ops += 1;
        let fails = self.run_case(case, obs);
        alloc::set_placement(0);
        // Report the first failure that is NOT a listed known finding; only if
        // there is none, report the first known one (which the explorer counts
        // and suppresses), so a known finding never masks a new violation.
        let mut first_known = None;
        for f in fails {
            if matches_known(&f, &self.known).is_some() {
                obs.reach.hit(R_KNOWN);
                if first_known.is_none() {
                    first_known = Some(f);
                }
            } else {
                return Err(f);
            }
        }
        match first_known {
            Some(f) => Err(f),
            None => Ok(()),
        }
    }

    fn all_failures(&self, case: &Case) -> Vec<Failure> {
        let mut obs = Obs::new(REACH, FAULTS);
        let v = self.run_case(case, &mut obs);
        alloc::set_placement(0);
        v
    }

    fn nontrivial(&self, case: &Case, _obs: &Obs) -> bool {
        match &case.data {
            Data::Words { words } | Data::Bits { words, .. } | Data::Parens { words, .. } => !words.is_empty(),
            Data::Json { text } => text.len() >= 2,
        }
    }

    fn n_events(&self, _case: &Case) -> usize {
        0
    }
    fn keep_events(&self, case: &Case, _keep: &[bool]) -> Case {
        case.clone()
    }

    fn simplifications(&self, case: &Case) -> Vec<Case> {
        let mut out = Vec::new();
        match &case.data {
            Data::Words { words } => {
                let n = words.len();
                for cut in [n / 2, n.saturating_sub(1)] {
                    if cut < n {
                        out.push(Case { data: Data::Words { words: words[..cut].to_vec() }, qseed: case.qseed });
                    }
                }
                if words.iter().any(|&w| w != 0) {
                    out.push(Case { data: Data::Words { words: vec![0; n] }, qseed: case.qseed });
                }
            }
            Data::Bits { words, len } => {
                out.push(Case { data: Data::Words { words: words.clone() }, qseed: case.qseed });
                let n = words.len();
                for cut in [n / 2, n.saturating_sub(1)] {
                    if cut < n {
                        out.push(Case {
                            data: Data::Bits { words: words[..cut].to_vec(), len: (*len).min(cut as u64 * 64) },
                            qseed: case.qseed,
                        });
                    }
                }
            }
            Data::Parens { words, .. } => {
                out.push(Case { data: Data::Words { words: words.clone() }, qseed: case.qseed });
                out.push(Case { data: Data::Parens { words: vec![0b01], len: 2 }, qseed: case.qseed });
            }
            Data::Json { text } => {
                if text.as_slice() != b"[1]" && text.as_slice() != b"1" {
                    out.push(Case { data: Data::Json { text: b"[1]".to_vec() }, qseed: case.qseed });
                    out.push(Case { data: Data::Json { text: b"1".to_vec() }, qseed: case.qseed });
                }
                let ix = JsonIndex::build(text);
                out.push(Case { data: Data::Words { words: ix.ib().to_vec() }, qseed: case.qseed });
            }
        }
        out
    }

    fn fingerprint(&self, case: &Case) -> (u64, u64) {
        let mut d = Fnv::default();
        match &case.data {
            Data::Words { words } => {
                d.u64(1);
                for w in words {
                    d.u64(*w);
                }
            }
            Data::Bits { words, len } => {
                d.u64(2);
                d.u64(*len);
                for w in words {
                    d.u64(*w);
                }
            }
            Data::Parens { words, len } => {
                d.u64(3);
                d.u64(*len);
                for w in words {
                    d.u64(*w);
                }
            }
            Data::Json { text } => {
                d.u64(4);
                d.bytes(text);
            }
        }
        (d.0, 0)
    }

    fn sample(&self, case: &Case) -> Value {
        match &case.data {
            Data::Words { words } => json!({"kind": "words", "n_words": words.len(), "prefix": words.iter().take(4).collect::<Vec<_>>()}),
            Data::Bits { words, len } => json!({"kind": "bitvec", "n_words": words.len(), "len_bits": len}),
            Data::Parens { words, len } => json!({"kind": "balanced_parens", "n_words": words.len(), "len_bits": len}),
            Data::Json { text } => json!({"kind": "json", "text": String::from_utf8_lossy(text).chars().take(160).collect::<String>()}),
        }
    }

    fn rule(&self) -> String {
        "For every seeded data set (raw word vector | BitVec | BalancedParens | JsonIndex of a generated document; 0..600 words quick, ..3000 thorough) the placement space is \
         enumerated completely: the read-back Vec<u8> is placed by SimAlloc at every residue k = 0..7 (mod 8), and an aligned buffer is sliced at every header offset 0..7; on each, \
         all three entry points (bytes_to_words_vec, try_bytes_to_words, bytes_to_words) must return the original words, try_bytes_to_words must return None on a length that is not a \
         multiple of 8 without panicking, and the index rebuilt by from_words/from_parts (owned, and zero-copy when the buffer is aligned) must answer a seeded batch of \
         rank/select/navigation/cursor queries like the original. Non-trivial: at least one word / two bytes of JSON. distinct_nontrivial = set bits of a one-hash bit table over hash(data)."
            .into()
    }

    fn extra_coverage(&self) -> Value {
        json!({
            "exhaustive": true,
            "exhaustive_over": "the placement space per data set: 8 allocator residues x 3 entry points, 8 header offsets x 3 entry points, 1 bad length per residue; data sets themselves are seeded samples",
        })
    }

    fn real_vs_stub(&self) -> Value {
        json!({
            "real": ["succinctly::binary::{words_to_bytes,bytes_to_words,bytes_to_words_vec,try_bytes_to_words}",
                     "BitVec::from_words + RankSelect; BalancedParens::{new,from_words} navigation; JsonIndex::{build,from_parts} + JsonCursor traversal"],
            "stub": ["the disk is an in-memory map of name -> bytes (the format has no header or checksum, and the statement promises nothing under corruption)",
                     "the system allocator's placement policy is replaced by SimAlloc (any residue mod 8 for layouts with alignment < 8)"],
            "model": "the original words / the original index"
        })
    }

    fn assumptions(&self) -> Vec<String> {
        vec![
            "the GlobalAlloc contract promises only the requested alignment, so a Vec<u8> may start at any address".into(),
            "little-endian host (words_to_bytes is a native-endian cast)".into(),
            "bytes_to_words on a bad length panics by documented contract; only the fallible form is constrained there".into(),
        ]
    }
}
