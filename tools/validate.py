#!/usr/bin/env python3
import json, sys, glob, os
import jsonschema
ROOT = os.path.dirname(os.path.dirname(os.path.abspath(__file__)))
jsonschema.validate(json.load(open(f"{ROOT}/MANIFEST.json")), json.load(open("/root/.vp/MANIFEST.schema.json")))
es = json.load(open("/root/.vp/EVIDENCE.schema.json"))
for f in sorted(glob.glob(f"{ROOT}/evidence/*.json")):
    jsonschema.validate(json.load(open(f)), es)
    print("ok", f)
m = json.load(open(f"{ROOT}/MANIFEST.json"))
ids = {json.loads(l)["id"] for l in open(f"{ROOT}/properties.jsonl")}
claimed = {c["property_id"] for c in m["checks"]}
na = {c["property_id"] for c in m["not_applicable"]}
assert claimed | na == ids and not (claimed & na), (ids - claimed - na, claimed & na)
print("manifest ok; claimed", sorted(claimed))
