#!/usr/bin/env python3
"""mkmutant.py <name> <file-relative-to-/repo> <<< JSON {"old": ..., "new": ...}
Creates /verif/mutants/<name>.patch by applying one textual replacement in /repo, diffing, and reverting."""
import json, subprocess, sys
name, rel = sys.argv[1], sys.argv[2]
spec = json.load(sys.stdin)
p = f"/repo/{rel}"
s = open(p).read()
assert s.count(spec["old"]) == 1, f"{name}: old text occurs {s.count(spec['old'])} times"
open(p, "w").write(s.replace(spec["old"], spec["new"]))
diff = subprocess.run(["git", "-C", "/repo", "diff"], capture_output=True, text=True).stdout
subprocess.run(["git", "-C", "/repo", "checkout", "--", "."], check=True)
open(f"/verif/mutants/{name}.patch", "w").write(diff)
print("wrote", name, len(diff.splitlines()), "lines")
