#!/bin/bash
# verify_seed.sh <worktree> <a|b> <pid-lower>  -- independently confirm a sub-agent's change:
#  compiles, existing suite passes (only demo_* tests may fail), demo fails with the change and passes without.
set -u
wt="$1"; ab="$2"; pid="$3"
cd "$wt" || exit 2
git checkout -- src 2>/dev/null
cp "OUT/demo_${ab}.rs" "tests/demo_${pid}_${ab}.rs" 2>/dev/null
# keep only this demo in tests/ during the run
other=$([ "$ab" = a ] && echo b || echo a)
[ -f "tests/demo_${pid}_${other}.rs" ] && mv "tests/demo_${pid}_${other}.rs" "OUT/.hold_${other}.rs"
git apply "OUT/${ab}.patch" || { echo "VERIFY $wt $ab apply-failed"; exit 1; }
cargo nextest run --workspace --no-fail-fast --test-threads 8 --offline > "OUT/verify_suite_${ab}.log" 2>&1
summary=$(grep -a "Summary" "OUT/verify_suite_${ab}.log" | tail -1)
nondemo_fail=$(grep -a "^ *FAIL" "OUT/verify_suite_${ab}.log" | grep -av "demo_${pid}_${ab}" | sort -u | wc -l)
demo_fail_with=$(grep -a "^ *FAIL" "OUT/verify_suite_${ab}.log" | grep -a "demo_${pid}_${ab}" | sort -u | wc -l)
git checkout -- src
cargo test --offline --test "demo_${pid}_${ab}" > "OUT/verify_demo_clean_${ab}.log" 2>&1; clean_code=$?
[ -f "OUT/.hold_${other}.rs" ] && mv "OUT/.hold_${other}.rs" "tests/demo_${pid}_${other}.rs"
echo "VERIFY $wt $ab | $summary | non-demo failures: $nondemo_fail | demo failing tests with change: $demo_fail_with | demo on clean tree exit=$clean_code"
