#!/usr/bin/env python3
"""Regenerates /verif/MANIFEST.json. Edit CLAIMED / NA below, then run."""
import json, os, sys
ROOT = os.path.dirname(os.path.dirname(os.path.abspath(__file__)))

NA = {
 "C01": "BitVec rank/select/access is a pure function of (words, len, sample rate, cargo feature); immutable after construction, so there is no history, schedule or fault to vary (DESIGN.md §5).",
 "C02": "Word-level kernels are pure functions of one word plus a CPU-feature switch; deciding them means covering 2^64 inputs, which is proof or enumeration, not simulation.",
 "C04": "Balanced-parentheses navigation is a pure function of (bits, len, select variant, rate); BalancedParens has no interior mutability.",
 "C05": "Engine independence of the JSON semi-index compares pure functions of one byte string; the only nondeterminism is a CPUID switch and each engine is directly callable.",
 "C06": "Cursor navigation of a built JsonIndex reads immutable bit vectors; the reconstructed value is a pure function of the document text.",
 "C07": "The select hint is an explicit argument, not hidden state; rank/select/offset->node are pure functions of (index, argument). Its line/column part is the LineIndex exercised under C12.",
 "C08": "The strict JSON validator is a pure recogniser of one byte string.",
 "C09": "Escaping is a pure function of the string and start offset.",
 "C10": "Number printing/parsing is a pure function of the double or literal.",
 "C11": "jq . is read-all / compute / write-all through read_to_end and BufWriter+write_all, so delivery granularity never reaches repository code; output is a pure function of (argv, env, stdin).",
 "C13": "UTF-8 validators are pure functions of one byte string; engine choice is a CPUID switch.",
 "C14": "YAML loading is a pure function of the text (the access-order-sensitive part of reading positions back is C17, which is claimed).",
 "C15": "yq output re-readability is a pure function of (document, program, indent); no I/O seam is involved in the statement.",
 "C16": "Same as C05 for YAML; the SUCCINCTLY_SIMD clamp is read once per process into a OnceLock and is configuration, not a schedule.",
 "C18": "The strict YAML validator is a pure recogniser.",
 "C19": "Quantifies over byte strings only: parse, traverse and print are a pure function of the bytes, and the statement has no clause about a refused resource for a simulator to own. (Its program-parser sentence is exercised as traffic of the C30 simulation, which found and repaired a parser panic on non-ASCII lookahead.)",
 "C20": "Same as C05 for DSV.",
 "C21": "DSV row/field iteration reads an immutable index; pure function of (text, config, indices).",
 "C22": "@csv/@dsv -> --input-dsv is a composition of two pure functions.",
 "C23": "Two evaluators, one program, one input: a differential comparison of pure functions; the ambient state they could touch is outside the statement's program space.",
 "C24": "Pure function comparison, and the oracle it names (jq 1.7.1) is not in the sandbox.",
 "C25": "Algebraic identities between pure builtins.",
 "C26": "Same data through two parsers: pure functions of the tree and program.",
 "C27": "The route is selected by flags and program shape, an argument rather than a schedule; both routes are pure functions of the document.",
 "C28": "jq-locate is a pure function of (document, offset).",
 "C29": "yq-locate is a pure function of (stream, offset).",
 "C32": "Simple-cursor navigation is a pure function of the document.",
}

CLAIMED = json.load(open(os.path.join(ROOT, "tools", "claimed.json")))

def main():
    checks = []
    for c in CLAIMED:
        pid = c["property_id"]
        NA.pop(pid, None)
        checks.append({
            "property_id": pid,
            "quick_cmd": f"./check {pid} quick",
            "thorough_cmd": f"./check {pid} thorough",
            "evidence_file": f"evidence/{pid}.json",
            "replay_cmd_template": "./check --replay {path}",
            "engine": c["engine"],
            "level_claimed": c["level_claimed"],
            "level_note": c["level_note"],
            "technique": c["technique"],
        })
    pending = json.load(open(os.path.join(ROOT, "tools", "pending.json")))
    na = [{"property_id": k, "reason": v} for k, v in sorted({**NA, **pending}.items())]
    claimed_ids = {c["property_id"] for c in checks}
    na = [x for x in na if x["property_id"] not in claimed_ids]
    man = {
        "version": 1,
        "setup_cmd": "./check --setup",
        "hooks": {
            "guard": "verif-hooks (reserved cargo feature name; no hook exists: every seam is outside the repository's source)",
            "enable": "none needed: the simulators link /repo as a path dependency and own the seams (public constructors, #[global_allocator] of the harness binary, process boundary, thread stack size)",
            "baseline_off_cmd": "cd /repo && cargo nextest run --workspace --no-fail-fast --test-threads 8 --offline || cargo test --workspace --no-fail-fast --offline",
            "source_commits": [],
            "add_only": True,
        },
        "engines": json.load(open(os.path.join(ROOT, "tools", "engines.json"))),
        "checks": checks,
        "notes": "Deterministic simulation with fault injection. See DESIGN.md. Properties that are pure functions of their arguments are listed under not_applicable, not re-labelled.",
        "not_applicable": na,
    }
    json.dump(man, open(os.path.join(ROOT, "MANIFEST.json"), "w"), indent=1)
    print("claimed:", sorted(claimed_ids), "n/a:", len(na))

main()
