#!/bin/bash
# runmutant.sh <patch> <ID> [mode]  -- apply a patch to /repo, run the check, revert. Prints RESULT line.
set -u
patch="$(realpath "$1")"; id="$2"; mode="${3:-quick}"
cd /verif
# serialise every user of /repo (mutants, seed sweeps) on one lock
exec 9>/tmp/repo.lock; flock 9
if ! git -C /repo diff --quiet; then echo "refusing: /repo has uncommitted changes"; exit 3; fi
git -C /repo apply "$patch" || { echo "RESULT $(basename "$patch") $id apply-failed"; exit 3; }
out="$(./check "$id" "$mode" --no-evidence 2>&1)"; code=$?
git -C /repo checkout -- .
viol="$(echo "$out" | grep -a '^VIOLATION' | head -1)"
cls="$(echo "$out" | grep -a '^violation at' | head -1 | cut -c1-200)"
echo "RESULT $(basename "$patch") $id exit=$code $viol | $cls"
