#!/usr/bin/env python3
"""keep_seed.py <worktree> <a|b> <PID> <<< JSON {"title","breaks","needs","check_result","verify_line"}
Copies OUT/<x>.patch + demo into /verif/seeded/<PID>-<x>/ with meta.json."""
import json, os, shutil, sys
wt, ab, pid = sys.argv[1:4]
spec = json.load(sys.stdin)
d = f"/verif/seeded/{pid}-{ab}"
os.makedirs(d, exist_ok=True)
shutil.copy(f"{wt}/OUT/{ab}.patch", f"{d}/patch.diff")
shutil.copy(f"{wt}/OUT/demo_{ab}.rs", f"{d}/demo.rs")
meta = {
    "id": f"{pid}-{ab}",
    "property": pid,
    "author": "fresh sub-agent given only the property record and its own scratch worktree",
    "base_commit": "98c7071 (/repo HEAD with the eight fix: commits)",
    **spec,
    "how_to_use": f"git -C /repo apply /verif/seeded/{pid}-{ab}/patch.diff && (cd /verif && ./check {pid} quick); git -C /repo checkout -- .   # demo: copy demo.rs to <repo>/tests/demo.rs and run cargo test --offline --test demo",
}
json.dump(meta, open(f"{d}/meta.json", "w"), indent=1)
print("kept", d)
